/* LD_PRELOAD fault injector for native replays of I/O-failure counterexamples.
 *   FAULTINJ_PATH  suffix of the path whose calls are counted
 *   FAULTINJ_OP    open | create | read | write
 *   FAULTINJ_NTH   1-based ordinal of the matching call that fails (exactly once, with EIO / ENOSPC for write)
 *   FAULTINJ_LOG   file that receives one line when the fault was injected
 */
#define _GNU_SOURCE
#include <dlfcn.h>
#include <errno.h>
#include <fcntl.h>
#include <stdarg.h>
#include <stdio.h>
#include <stdlib.h>
#include <string.h>
#include <unistd.h>
#include <sys/types.h>

static int counter = 0;
static int done = 0;

static const char *cfg(const char *k) { const char *v = getenv(k); return v ? v : ""; }

static int suffix_match(const char *path) {
    const char *suf = cfg("FAULTINJ_PATH");
    size_t lp = strlen(path), ls = strlen(suf);
    return ls > 0 && lp >= ls && strcmp(path + lp - ls, suf) == 0;
}

static int fd_match(int fd) {
    char link[64], buf[4096];
    snprintf(link, sizeof link, "/proc/self/fd/%d", fd);
    ssize_t n = readlink(link, buf, sizeof buf - 1);
    if (n <= 0) return 0;
    buf[n] = 0;
    return suffix_match(buf);
}

static int fire(const char *op) {
    if (done || strcmp(cfg("FAULTINJ_OP"), op) != 0) return 0;
    int nth = atoi(cfg("FAULTINJ_NTH"));
    if (nth <= 0) nth = 1;
    if (__sync_add_and_fetch(&counter, 1) != nth) return 0;
    done = 1;
    const char *log = cfg("FAULTINJ_LOG");
    if (*log) {
        int (*ropen)(const char *, int, ...) = dlsym(RTLD_NEXT, "open");
        ssize_t (*rwrite)(int, const void *, size_t) = dlsym(RTLD_NEXT, "write");
        int fd = ropen(log, O_WRONLY | O_CREAT | O_APPEND, 0644);
        if (fd >= 0) { char b[64]; int n = snprintf(b, sizeof b, "injected %s #%d\n", op, nth); rwrite(fd, b, n); close(fd); }
    }
    return 1;
}

static int open_common(const char *name, const char *path, int flags, mode_t mode) {
    int (*real)(const char *, int, ...) = dlsym(RTLD_NEXT, name);
    if (suffix_match(path)) {
        if ((flags & O_CREAT) ? fire("create") : fire("open")) { errno = EIO; return -1; }
    }
    return real(path, flags, mode);
}

int open(const char *path, int flags, ...) {
    mode_t mode = 0;
    if (flags & (O_CREAT | O_TMPFILE)) { va_list ap; va_start(ap, flags); mode = va_arg(ap, mode_t); va_end(ap); }
    return open_common("open", path, flags, mode);
}

int open64(const char *path, int flags, ...) {
    mode_t mode = 0;
    if (flags & (O_CREAT | O_TMPFILE)) { va_list ap; va_start(ap, flags); mode = va_arg(ap, mode_t); va_end(ap); }
    return open_common("open64", path, flags, mode);
}

int openat(int dirfd, const char *path, int flags, ...) {
    mode_t mode = 0;
    if (flags & (O_CREAT | O_TMPFILE)) { va_list ap; va_start(ap, flags); mode = va_arg(ap, mode_t); va_end(ap); }
    int (*real)(int, const char *, int, ...) = dlsym(RTLD_NEXT, "openat");
    if (suffix_match(path)) {
        if ((flags & O_CREAT) ? fire("create") : fire("open")) { errno = EIO; return -1; }
    }
    return real(dirfd, path, flags, mode);
}

ssize_t read(int fd, void *buf, size_t n) {
    ssize_t (*real)(int, void *, size_t) = dlsym(RTLD_NEXT, "read");
    if (!done && strcmp(cfg("FAULTINJ_OP"), "read") == 0 && fd_match(fd) && fire("read")) { errno = EIO; return -1; }
    return real(fd, buf, n);
}

ssize_t write(int fd, const void *buf, size_t n) {
    ssize_t (*real)(int, const void *, size_t) = dlsym(RTLD_NEXT, "write");
    if (!done && strcmp(cfg("FAULTINJ_OP"), "write") == 0 && fd_match(fd) && fire("write")) { errno = ENOSPC; return -1; }
    return real(fd, buf, n);
}
