//! Native replay helper: calls the real (compiled, unstubbed) txtpp functions through the `verif`
//! re-exports.  Line protocol on stdin, one request per line, byte strings hex-encoded ("-" = empty).
use std::io::{BufRead, Write};
use std::path::PathBuf;
use txtpp::verif::*;

fn unhex(s: &str) -> Vec<u8> {
    if s == "-" {
        return vec![];
    }
    (0..s.len() / 2)
        .map(|i| u8::from_str_radix(&s[2 * i..2 * i + 2], 16).unwrap())
        .collect()
}
fn hex(b: &[u8]) -> String {
    if b.is_empty() {
        return "-".to_string();
    }
    b.iter().map(|x| format!("{:02x}", x)).collect()
}
fn ustr(s: &str) -> Option<String> {
    String::from_utf8(unhex(s)).ok()
}
fn dtype(s: &str) -> DirectiveType {
    match s {
        "Empty" => DirectiveType::Empty,
        "Include" => DirectiveType::Include,
        "After" => DirectiveType::After,
        "Run" => DirectiveType::Run,
        "Tag" => DirectiveType::Tag,
        "Temp" => DirectiveType::Temp,
        "Write" => DirectiveType::Write,
        _ => panic!("bad type"),
    }
}
fn show_directive(d: &Directive) -> String {
    let mut s = format!(
        "{} {} {:?} {}",
        hex(d.whitespaces.as_bytes()),
        hex(d.prefix.as_bytes()),
        d.directive_type,
        d.args.len()
    );
    for a in &d.args {
        s.push(' ');
        s.push_str(&hex(a.as_bytes()));
    }
    s
}

fn handle(line: &str) -> String {
    let t: Vec<&str> = line.split_whitespace().collect();
    if t.is_empty() {
        return "ERR empty".into();
    }
    match t[0] {
        "detect_from" => {
            let l = match ustr(t[1]) {
                Some(l) => l,
                None => return "BADUTF8".into(),
            };
            match Directive::detect_from(&l) {
                None => "NONE".into(),
                Some(d) => format!("SOME {}", show_directive(&d)),
            }
        }
        "add_line" => {
            // add_line ws prefix type nargs args... line
            let n: usize = t[4].parse().unwrap();
            let args: Vec<String> = (0..n).map(|i| ustr(t[5 + i]).unwrap()).collect();
            let mut d = Directive::new(&ustr(t[1]).unwrap(), &ustr(t[2]).unwrap(), dtype(t[3]), args);
            let l = ustr(t[5 + n]).unwrap();
            match d.add_line(&l) {
                Ok(()) => format!("OK {}", show_directive(&d)),
                Err(()) => format!("ERR {}", show_directive(&d)),
            }
        }
        "line_ending" => {
            let b = unhex(t[1]);
            let len: usize = t[2].parse().unwrap();
            hex(verif_get_line_ending_from_buf(&b, len).as_bytes())
        }
        "replace_line_ending" => {
            let s = ustr(t[1]).unwrap();
            let le = ustr(t[2]).unwrap();
            hex(s.replace_line_ending(&le, t[3] == "1").as_bytes())
        }
        "tags" => {
            // tags <le> then ops: c:<name> s:<content> i:<line>   -> results joined by space
            let le = ustr(t[1]).unwrap();
            let mut ts = TagState::new();
            let mut out = vec![];
            for op in &t[2..] {
                let (k, v) = op.split_at(2);
                let v = ustr(v).unwrap();
                match k {
                    "c:" => out.push(if ts.create(&v).is_ok() { "ok".to_string() } else { "err".to_string() }),
                    "s:" => out.push(if ts.try_store(&v).is_ok() { "ok".to_string() } else { "err".to_string() }),
                    "i:" => out.push(hex(ts.inject_tags(&v, &le).as_bytes())),
                    "h:" => out.push(format!("{}", ts.has_tags())),
                    _ => out.push("?".into()),
                }
            }
            out.join(" ")
        }
        "is_txtpp_file" => format!("{}", PathBuf::from(ustr(t[1]).unwrap()).is_txtpp_file()),
        "remove_txtpp" => match PathBuf::from(ustr(t[1]).unwrap()).remove_txtpp() {
            Ok(p) => format!("OK {}", hex(p.to_string_lossy().as_bytes())),
            Err(_) => "ERR".into(),
        },
        "get_txtpp_file" => match PathBuf::from(ustr(t[1]).unwrap()).get_txtpp_file() {
            Some(p) => format!("SOME {}", hex(p.to_string_lossy().as_bytes())),
            None => "NONE".into(),
        },
        "path_string_from_base" => hex(
            verif_path_string_from_base(
                &PathBuf::from(ustr(t[1]).unwrap()),
                &PathBuf::from(ustr(t[2]).unwrap()),
            )
            .as_bytes(),
        ),
        "txtpp" => {
            // txtpp <cwd> <base> <mode> <threads> <trailing 0|1> <recursive 0|1> <shell> <inputs...>
            let cwd = ustr(t[1]).unwrap();
            if std::env::set_current_dir(&cwd).is_err() {
                return "ERR chdir".into();
            }
            let mode = match t[3] {
                "Build" => txtpp::Mode::Build,
                "InMemoryBuild" => txtpp::Mode::InMemoryBuild,
                "Clean" => txtpp::Mode::Clean,
                "Verify" => txtpp::Mode::Verify,
                _ => return "ERR mode".into(),
            };
            let cfg = txtpp::Config {
                base_dir: PathBuf::from(ustr(t[2]).unwrap()),
                shell_cmd: ustr(t[7]).unwrap(),
                inputs: t[8..].iter().map(|x| ustr(x).unwrap()).collect(),
                recursive: t[6] == "1",
                num_threads: t[4].parse().unwrap(),
                mode,
                verbosity: txtpp::Verbosity::Quiet,
                trailing_newline: t[5] == "1",
            };
            match txtpp::Txtpp::run(cfg) {
                Ok(()) => "OK".into(),
                Err(_) => "ERR".into(),
            }
        }
        _ => "ERR unknown op".into(),
    }
}

fn main() {
    let stdin = std::io::stdin();
    let stdout = std::io::stdout();
    for line in stdin.lock().lines() {
        let line = line.unwrap();
        let r = std::panic::catch_unwind(|| handle(&line));
        let mut o = stdout.lock();
        match r {
            Ok(s) => writeln!(o, "{}", s).unwrap(),
            Err(_) => writeln!(o, "PANIC").unwrap(),
        }
        o.flush().unwrap();
    }
}
