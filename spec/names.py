"""Source / output naming (README 'Usage': foo.ext.txtpp, foo.txtpp.ext, foo.txtpp)."""
from .prims import *

TXTPP = tuple(b'txtpp')


def _file_name(ctx, path):
    """last path component (bytes after the last '/')"""
    k = 0
    for i, b in enumerate(path):
        if byte_is(ctx, b, 47):
            k = i + 1
    return tuple(path[k:])


def _split_ext(ctx, name):
    """(stem, ext) at the last '.', None ext when there is no '.' or only a leading one"""
    last = None
    for i, b in enumerate(name):
        if byte_is(ctx, b, 46):
            last = i
    if last is None or last == 0:
        return tuple(name), None
    return tuple(name[:last]), tuple(name[last + 1:])


def is_txtpp_name(ctx, path):
    """a txtpp source name: last extension is `txtpp`, or the one before it is"""
    name = _file_name(ctx, path)
    stem, ext = _split_ext(ctx, name)
    if ext is None:
        return False
    if beq(ctx, ext, TXTPP):
        return True
    stem2, ext2 = _split_ext(ctx, stem)
    return ext2 is not None and beq(ctx, ext2, TXTPP)


def output_name(ctx, path):
    """output path of a txtpp source path, None if it is not a txtpp name"""
    name = _file_name(ctx, path)
    base = tuple(path[:len(path) - len(name)])
    stem, ext = _split_ext(ctx, name)
    if ext is None:
        return None
    if beq(ctx, ext, TXTPP):
        return base + stem
    stem2, ext2 = _split_ext(ctx, stem)
    if ext2 is not None and beq(ctx, ext2, TXTPP):
        return base + stem2 + (46,) + ext
    return None
