"""G1 / G2 of DESIGN.md section 4.1: directive recognition and continuation (README 'Directives')."""
from .prims import *

TXTPP_HASH = tuple(b'TXTPP#')
NAMES = [(b'', 'Empty'), (b'include', 'Include'), (b'after', 'After'), (b'run', 'Run'), (b'temp', 'Temp'),
         (b'tag', 'Tag'), (b'write', 'Write')]
MULTILINE = ('Empty', 'Run', 'Temp', 'Write')


def classify(ctx, line):
    """-> None (ordinary text) | (ws, prefix, type, arg1)"""
    k = leading_ws_len(ctx, line)
    ws, r = tuple(line[:k]), tuple(line[k:])
    j = find(ctx, r, TXTPP_HASH)
    if j is None:
        return None
    prefix = r[:j]
    t = r[j + len(TXTPP_HASH):]
    sp = None
    for i, b in enumerate(t):
        if byte_is(ctx, b, 32):
            sp = i
            break
    if sp is None:
        name, arg = t, ()
    else:
        name = t[:sp]
        arg = rtrim(ctx, ltrim(ctx, t[sp + 1:]))
    for nm, ty in NAMES:
        if beq(ctx, name, tuple(nm)):
            return (ws, prefix, ty, arg)
    return None


def continuation(ctx, d, line):
    """d = (ws, prefix, type); -> None (directive ends, line is the tail) | next argument (byte tuple)"""
    ws, prefix, ty = d
    if ty not in MULTILINE:
        return None
    if not starts_with(ctx, line, ws):
        return None
    x = tuple(line[len(ws):])
    if beq(ctx, x, rtrim(ctx, prefix)):
        return ()
    if starts_with(ctx, x, prefix) or starts_with(ctx, x, (32,) * len(prefix)):
        return rtrim(ctx, x[len(prefix):])
    return None
