"""Reference semantics of one source file (DESIGN.md 4.1), written from README / CHANGELOG only.

`process(ctx, content, env, trailing_newline)` -> Result(ok, output, temps, error)
env provides:  env.include(arg) -> bytes | None ;  env.run(cmd) -> bytes | None ;  env.is_txtpp_name(arg) -> bool
All byte strings may contain symbolic bytes; ctx.branch forks exactly as in the interpreter.
"""
from .prims import *
from . import grammar
from .tags import TagSpec, normalize_le

LF = (10,)
CRLF = (13, 10)


class SpecError(Exception):
    pass


class Result:
    def __init__(self):
        self.ok = True
        self.error = None
        self.output = []
        self.temps = []          # list of (arg bytes, content bytes) in order
        self.commands = []
        self.le = LF
        self.last_item_is_text = False    # the source's last line was emitted as an ordinary text line


def first_line_ending(ctx, content):
    """line ending of the first line; LF (OS default on this platform) when the source has none"""
    for i, b in enumerate(content):
        if byte_is(ctx, b, 10):
            if i > 0 and byte_is(ctx, content[i - 1], 13):
                return CRLF
            return LF
    return LF


def source_lines(ctx, content):
    lines, _ = split_lines(ctx, content)
    return lines


def fmt(ctx, ws, s, le):
    """indent every line of s with ws, join with le, keep a final line break"""
    lines, ends = split_lines(ctx, s)
    out = []
    for i, l in enumerate(lines):
        if i:
            out.extend(le)
        out.extend(ws)
        out.extend(l)
    if ends:
        out.extend(le)
    return tuple(out)


def join(parts, sep):
    out = []
    for i, p in enumerate(parts):
        if i:
            out.extend(sep)
        out.extend(p)
    return tuple(out)


def process(ctx, content, env, trailing_newline=True):
    res = Result()
    le = first_line_ending(ctx, content)
    res.le = le
    lines = source_lines(ctx, content)
    tags = TagSpec()
    pending = False
    out = res.output

    def emit(x, tail):
        nonlocal pending
        if pending:
            out.extend(le)
        pending = not tail
        out.extend(x)

    def execute(d, has_tail):
        ws, prefix, ty, args = d
        s = None
        if ty in ('After', 'Empty'):
            s = None
            if ty == 'After' and hasattr(env, 'after'):
                env.after(ctx, args[0])          # multi-file projects: the dependency is processed first (no output)
        elif ty == 'Include':
            s = env.include(ctx, args[0])
            if s is None:
                raise SpecError('include target cannot be read')
        elif ty == 'Run':
            cmd = join(args, (32,))
            res.commands.append(cmd)
            s = env.run(ctx, cmd)
            if s is None:
                raise SpecError('command failed')
        elif ty == 'Write':
            s = join(args, (10,))
        elif ty == 'Temp':
            if env.is_txtpp_name(ctx, args[0]):
                raise SpecError('temp target is a txtpp file')
            content_t = join(args[1:], le)
            env.write_temp(ctx, args[0], content_t)
            res.temps.append((tuple(args[0]), content_t))
        elif ty == 'Tag':
            if not tags.create(ctx, args[0]):
                raise SpecError('tag cannot be created')
        if s is None:
            return
        if tags.try_store(ctx, s):
            return
        emit(fmt(ctx, ws, s, le), has_tail)

    try:
        i = 0
        n = len(lines)
        cur = None
        while True:
            line = lines[i] if i < n else None
            if cur is None:
                if line is None:
                    break
                c = grammar.classify(ctx, line)
                i += 1
                if c is None:
                    emit(tags.inject(ctx, line, le), False)
                    res.last_item_is_text = (i == n)
                else:
                    ws, prefix, ty, arg = c
                    if ty in grammar.MULTILINE and len(prefix) == 0:
                        raise SpecError('multi-line directive without prefix')
                    cur = (ws, prefix, ty, [arg])
            else:
                if line is None:
                    execute(cur, False)
                    cur = None
                    continue
                nxt = grammar.continuation(ctx, (cur[0], cur[1], cur[2]), line)
                if nxt is None:
                    # directive ends; `line` is its tail and is processed afresh
                    execute(cur, True)
                    cur = None
                    res.last_item_is_text = False
                else:
                    cur[3].append(nxt)
                    i += 1
        if tags.has_tags():
            raise SpecError('unused tag at end of file')
        if pending and trailing_newline:
            out.extend(le)
    except SpecError as e:
        res.ok = False
        res.error = str(e)
    res.output = tuple(res.output)
    return res


def temp_targets_all(ctx, content):
    """every temp target named by a real temp directive of the source, found by the line state machine alone (nothing is
    executed, errors are skipped as clean mode does): the set clean may remove"""
    lines = source_lines(ctx, content)
    out = []
    i = 0
    n = len(lines)
    cur = None
    while i < n:
        line = lines[i]
        if cur is None:
            c = grammar.classify(ctx, line)
            i += 1
            if c is None:
                continue
            ws, prefix, ty, arg = c
            if ty in grammar.MULTILINE and len(prefix) == 0:
                continue                      # erroneous directive line: skipped
            cur = (ws, prefix, ty, arg)
            if ty == 'Temp':
                out.append(tuple(arg))
        else:
            nxt = grammar.continuation(ctx, (cur[0], cur[1], cur[2]), line)
            if nxt is None:
                cur = None                    # the line is re-read as a fresh line
            else:
                i += 1
    return out


def dep_targets(ctx, content):
    """arguments of the real include / after directives of a source, in order (found by the line state machine alone, as
    temp_targets_all): the files that have to be up to date before the source is processed"""
    lines = source_lines(ctx, content)
    out = []
    i = 0
    n = len(lines)
    cur = None
    while i < n:
        line = lines[i]
        if cur is None:
            c = grammar.classify(ctx, line)
            i += 1
            if c is None:
                continue
            ws, prefix, ty, arg = c
            if ty in grammar.MULTILINE and len(prefix) == 0:
                break                         # the source fails here; nothing after it is reached
            cur = (ws, prefix, ty, arg)
            if ty in ('Include', 'After'):
                out.append(tuple(arg))
        else:
            nxt = grammar.continuation(ctx, (cur[0], cur[1], cur[2]), line)
            if nxt is None:
                cur = None
            else:
                i += 1
    return out
