"""Primitive operations of the reference semantics over (possibly symbolic) byte tuples.

Deliberately written independently of mirsym's std models (sequential two-way branching instead of
n-way position forks) so that a modelling mistake is not shared between implementation side and
specification side.  `ctx.branch` forks on symbolic conditions exactly as in the interpreter.
"""
from mirsym.core import t_eq, t_in, t_and, t_not, t_bytes_eq, is_sym

WS_ASCII = frozenset([9, 10, 11, 12, 13, 32])
WS_UNI = set([0x85, 0xA0, 0x1680, 0x2028, 0x2029, 0x202F, 0x205F, 0x3000]) | set(range(0x2000, 0x200B))


def beq(ctx, a, b):
    """equality of two byte tuples -> Python bool"""
    if len(a) != len(b):
        return False
    for x, y in zip(a, b):
        if not ctx.branch(t_eq(x, y), 'spec:eq'):
            return False
    return True


def byte_is(ctx, b, c):
    return ctx.branch(t_eq(b, c), 'spec:is')


def chars(bs):
    """split a byte tuple into chars: list of (start, end); symbolic bytes are single ASCII chars"""
    out = []
    i = 0
    n = len(bs)
    while i < n:
        b = bs[i]
        if isinstance(b, int) and b >= 0x80:
            w = 2 if b >> 5 == 0b110 else 3 if b >> 4 == 0b1110 else 4
            out.append((i, i + w))
            i += w
        else:
            out.append((i, i + 1))
            i += 1
    return out


def is_ws_char(ctx, bs, rng):
    a, b = rng
    if b - a == 1:
        x = bs[a]
        if isinstance(x, int):
            return x in WS_ASCII
        return ctx.branch(t_in(x, WS_ASCII), 'spec:ws')
    cp = ord(bytes(bs[a:b]).decode('utf8'))
    return cp in WS_UNI


def leading_ws_len(ctx, bs):
    for a, b in chars(bs):
        if not is_ws_char(ctx, bs, (a, b)):
            return a
    return len(bs)


def rtrim(ctx, bs):
    cs = chars(bs)
    end = len(bs)
    for a, b in reversed(cs):
        if is_ws_char(ctx, bs, (a, b)):
            end = a
        else:
            break
    return tuple(bs[:end])


def ltrim(ctx, bs):
    k = leading_ws_len(ctx, bs)
    return tuple(bs[k:])


def find(ctx, hay, needle):
    n, m = len(hay), len(needle)
    for i in range(0, n - m + 1):
        if beq(ctx, hay[i:i + m], needle):
            return i
    return None


def starts_with(ctx, s, p):
    return len(p) <= len(s) and beq(ctx, s[:len(p)], p)


def split_lines(ctx, bs):
    """(lines, ends_with_newline): split at LF, one CR before LF removed"""
    lines = []
    cur = []
    ended = False
    for b in bs:
        if byte_is(ctx, b, 10):
            if cur and byte_is(ctx, cur[-1], 13):
                cur = cur[:-1]
            lines.append(tuple(cur))
            cur = []
            ended = True
        else:
            cur.append(b)
            ended = False
    if cur:
        lines.append(tuple(cur))
    return lines, (ended and len(bs) > 0)
