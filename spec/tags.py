"""Tag rules of DESIGN.md 4.1 (README 'Tag directive'): an order-free reference model."""
from .prims import *


class TagSpec:
    def __init__(self):
        self.listening = None
        self.stored = []          # list of (name, content) — a set; order irrelevant by construction

    def create(self, ctx, name):
        """-> True ok / False error"""
        if self.listening is not None:
            return False
        for k, _ in self.stored:
            if starts_with(ctx, k, name) or starts_with(ctx, name, k):
                return False
        self.listening = tuple(name)
        return True

    def try_store(self, ctx, content):
        if self.listening is None:
            return False
        name = self.listening
        self.listening = None
        # same-name overwrite cannot happen (create rejects equal names); keep set semantics anyway
        self.stored = [(k, v) for k, v in self.stored if not beq(ctx, k, name)] + [(name, tuple(content))]
        return True

    def has_tags(self):
        return self.listening is not None or len(self.stored) > 0

    def inject(self, ctx, line, le):
        """substitute every stored tag at its first occurrence, leftmost first, skipping overlapped ones"""
        occ = []
        for k, v in self.stored:
            if len(k) == 0:
                pos = 0
            else:
                pos = find(ctx, line, k)
            if pos is not None:
                occ.append((pos, k, v))
        occ.sort(key=lambda t: t[0])
        out = []
        last_end = 0
        used = []
        for pos, k, v in occ:
            if pos < last_end:
                continue
            out.extend(line[last_end:pos])
            out.extend(normalize_le(ctx, v, le))
            last_end = pos + len(k)
            used.append(k)
        out.extend(line[last_end:])
        self.stored = [(k, v) for k, v in self.stored if not any(k is u for u in used)]
        return tuple(out)


def normalize_le(ctx, text, le):
    """rewrite every line break (LF or CRLF) of text to le, keeping whether the text ends with a line break"""
    lines, ends = split_lines(ctx, text)
    out = []
    for i, l in enumerate(lines):
        if i:
            out.extend(le)
        out.extend(l)
    if ends:
        out.extend(le)
    return tuple(out)
