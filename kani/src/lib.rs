//! Kani harnesses (engine E1): the *compiled* leaf functions of txtpp against loop-simple Rust
//! transliterations of the reference semantics (G1, first-line ending), on raw symbolic bytes.
//! Kernel stubs replace std search kernels that wreck bit-blasting; each stub is checked against
//! the std function by its own harness (`stub_*_equiv`).
#![feature(pattern)]
#![recursion_limit = "512"]
#![allow(dead_code)]
#![allow(unused_imports)]

#[cfg(kani)]
extern crate alloc;

#[cfg(kani)]
mod proofs {
    use core::str::pattern::{Pattern, Searcher, Utf8Pattern};
    use txtpp::verif::*;

    /// contract-equivalent replacement of `str::find` (std's TwoWaySearcher wrecks bit-blasting):
    /// naive scan for string needles, the std searcher for everything else (char predicates are a simple loop).
    /// Equivalence with std on the same bound is the harness `stub_find_equiv`.
    pub fn naive_find<P: Pattern>(s: &str, p: P) -> Option<usize> {
        if let Some(Utf8Pattern::StringPattern(needle)) = p.as_utf8_pattern() {
            return find_bytes(s.as_bytes(), needle.as_bytes());
        }
        p.into_searcher(s).next_match().map(|(i, _)| i)
    }

    /// first index of `needle` in `hay` (bytes), naive
    fn find_bytes(hay: &[u8], needle: &[u8]) -> Option<usize> {
        if needle.len() > hay.len() {
            return None;
        }
        let mut i = 0;
        while i + needle.len() <= hay.len() {
            let mut j = 0;
            let mut ok = true;
            while j < needle.len() {
                if hay[i + j] != needle[j] {
                    ok = false;
                    break;
                }
                j += 1;
            }
            if ok {
                return Some(i);
            }
            i += 1;
        }
        None
    }

    fn is_ws(b: u8) -> bool {
        // ASCII white space per char::is_whitespace
        b == b' ' || (9..=13).contains(&b)
    }

    // ---------------------------------------------------------------- G1 on ASCII bytes
    /// reference classification: None = text; Some((ws_end, prefix_end, type_index, arg_start, arg_end))
    fn classify(line: &[u8]) -> Option<(usize, usize, u8, usize, usize)> {
        let n = line.len();
        let mut k = 0;
        while k < n && is_ws(line[k]) {
            k += 1;
        }
        let j = find_bytes(&line[k..], b"TXTPP#")?;
        let t0 = k + j + 6;
        let mut sp = t0;
        while sp < n && line[sp] != b' ' {
            sp += 1;
        }
        let name = &line[t0..sp];
        let ty: u8 = if name == b"" {
            0
        } else if name == b"include" {
            1
        } else if name == b"after" {
            2
        } else if name == b"run" {
            3
        } else if name == b"tag" {
            4
        } else if name == b"temp" {
            5
        } else if name == b"write" {
            6
        } else {
            return None;
        };
        let (mut a, mut b) = if sp < n { (sp + 1, n) } else { (n, n) };
        while a < b && is_ws(line[a]) {
            a += 1;
        }
        while b > a && is_ws(line[b - 1]) {
            b -= 1;
        }
        Some((k, k + j, ty, a, b))
    }

    fn type_index(t: &DirectiveType) -> u8 {
        match t {
            DirectiveType::Empty => 0,
            DirectiveType::Include => 1,
            DirectiveType::After => 2,
            DirectiveType::Run => 3,
            DirectiveType::Tag => 4,
            DirectiveType::Temp => 5,
            DirectiveType::Write => 6,
        }
    }

    fn ascii_line<const M: usize>() -> ([u8; M], usize) {
        let buf: [u8; M] = kani::any();
        let len: usize = kani::any();
        kani::assume(len <= M);
        let mut i = 0;
        while i < M {
            kani::assume(buf[i] < 128 && buf[i] != b'\n' && buf[i] != b'\r');
            i += 1;
        }
        (buf, len)
    }

    #[kani::proof]
    #[kani::unwind(10)]
    fn stub_find_equiv() {
        let (buf, len) = ascii_line::<7>();
        let s = core::str::from_utf8(&buf[..len]).unwrap();
        assert!(s.find("TXTPP#") == naive_find(s, "TXTPP#"));
    }

    #[kani::proof]
    #[kani::unwind(10)]
    #[kani::stub(str::find, naive_find)]
    fn detect_from_matches_g1_6() {
        let (buf, len) = ascii_line::<6>();
        let line = core::str::from_utf8(&buf[..len]).unwrap();
        let got = Directive::detect_from(line);
        let want = classify(&buf[..len]);
        match (got, want) {
            (None, None) => {}
            (Some(d), Some((k, pe, ty, a, b))) => {
                assert!(d.whitespaces.as_bytes() == &buf[..k]);
                assert!(d.prefix.as_bytes() == &buf[k..pe]);
                assert!(type_index(&d.directive_type) == ty);
                assert!(d.args.len() == 1);
                assert!(d.args[0].as_bytes() == &buf[a..b]);
            }
            _ => panic!("classification differs from G1"),
        }
    }

    // ---------------------------------------------------------------- C12 leaf
    #[kani::proof]
    #[kani::unwind(8)]
    fn line_ending_from_buf_is_first_line_terminator() {
        let buf: [u8; 6] = kani::any();
        let len: usize = kani::any();
        kani::assume(len <= 6);
        // the caller passes the bytes read up to and including the first LF
        let mut i = 0;
        while i < len {
            if i + 1 < len {
                kani::assume(buf[i] != b'\n');
            }
            i += 1;
        }
        let got = verif_get_line_ending_from_buf(&buf[..len], len);
        let want = if len >= 2 && buf[len - 1] == b'\n' && buf[len - 2] == b'\r' { "\r\n" } else { "\n" };
        assert!(got == want);
    }

    // ---------------------------------------------------------------- C18 leaf: no panic on any valid UTF-8
    #[kani::proof]
    #[kani::unwind(8)]
    fn detect_from_never_panics_utf8_5() {
        let buf: [u8; 5] = kani::any();
        let len: usize = kani::any();
        kani::assume(len <= 5);
        if let Ok(line) = core::str::from_utf8(&buf[..len]) {
            let _ = Directive::detect_from(line);
        }
    }

    #[kani::proof]
    #[kani::unwind(10)]
    fn directive_type_table() {
        let (buf, len) = ascii_line::<8>();
        let s = core::str::from_utf8(&buf[..len]).unwrap();
        let got = DirectiveType::try_from(s).ok().map(|t| type_index(&t));
        let b = &buf[..len];
        let want = if b == b"" {
            Some(0)
        } else if b == b"include" {
            Some(1)
        } else if b == b"after" {
            Some(2)
        } else if b == b"run" {
            Some(3)
        } else if b == b"tag" {
            Some(4)
        } else if b == b"temp" {
            Some(5)
        } else if b == b"write" {
            Some(6)
        } else {
            None
        };
        assert!(got == want);
    }
}
