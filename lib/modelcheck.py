"""Differential validation of the std models: native results of /verif/modelcheck vs mirsym interpreting the same MIR."""
import os, shutil, subprocess, sys
sys.path.insert(0, os.path.dirname(os.path.dirname(os.path.abspath(__file__))))
from lib import build
from mirsym.interp import Machine, Interp
from mirsym.core import Explorer, Ctx, RustPanic
from mirsym.models_env import Env
from mirsym.values import StrV

PAIRS = [("a/b.txt", "md"), ("a/.hidden", ""), ("a/b.tar.gz", "x.y"), ("/", "a"), ("", "b"), (".", ""), ("..", "x"), ("a/..", "b"), ("a/b/", "c/d"),
         ("./a", "./b"), ("a//b", "a/b"), ("..txtpp.p", "p"), ("x..y", "z"), ("foo.", "bar"), (".txtpp.cfg", "cfg"), ("/w/d/a.txt.txtpp", "/w"),
         ("/w/d/a.txt.txtpp", "/w/d"), ("a/b", "a/b/"), ("a/./b", "a/b"), ("/a/b/../c", "/a"), ("foo.txtpp", ""), ("foo.txtpp.md", "txtpp"),
         ("a b  c", " "), (" x ", "x"), ("é x", " "), ("TXTPP#run echo", "TXTPP#"), ("a\r\nb\n", "\n"), ("a\nb", "\n"), ("", ""), ("\n", "\n"),
         ("--x--", "-"), ("aXbXc", "X"), ("abcabc", "bc"), ("  \t x \t", "\t"), ("one two one", "one"), ("12", "1"), ("12x", "2"), ("AbC", "aBc"),
         ("a.b.c.d", "."), ("　x ", "x"), ("/abs", "/abs"), ("rel/x", "/abs/y"), ("a/b/c", "b/c"), ("tail/", "")]


def main():
    crate = os.path.join(build.VERIF, 'modelcheck')
    work = os.path.join(build.scratch_dir(), 'modelcheck')
    shutil.copytree(crate, work, ignore=shutil.ignore_patterns('target'))
    env = dict(os.environ)
    env['CARGO_NET_OFFLINE'] = 'true'
    env['CARGO_TARGET_DIR'] = os.path.join(build.CACHE, 'target-modelcheck')
    r = subprocess.run(['cargo', '+nightly', 'build', '--offline'], cwd=work, env=env, capture_output=True, text=True)
    if r.returncode != 0:
        print(r.stderr[-3000:])
        return 2
    args = []
    for a, b in PAIRS:
        args += [a.encode().hex() or '', b.encode().hex() or '']
    exe = os.path.join(env['CARGO_TARGET_DIR'], 'debug', 'modelcheck')
    nat = subprocess.run([exe] + [x if x else '' for x in args], capture_output=True, text=True)
    native = {}
    for line in nat.stdout.split('\n'):
        if not line:
            continue
        name, a, b, out = line.split('\t')
        native[(name, a, b)] = out
    os.utime(os.path.join(work, 'src', 'lib.rs'))
    r = subprocess.run(['cargo', '+nightly', 'rustc', '--offline', '--lib', '--', '-Zunpretty=mir', '-C', 'debug-assertions=off', '-C', 'overflow-checks=on'],
                       cwd=work, env=env, capture_output=True, text=True)
    if r.returncode != 0 or not r.stdout.strip():
        print(r.stderr[-3000:])
        return 2
    m = Machine([r.stdout], work)
    ex = Explorer(lambda c: None)
    bad = 0
    total = 0
    unsupported = {}
    for (name, a, b), want in sorted(native.items()):
        fn = m.free.get(name)
        if fn is None:
            continue
        ctx = Ctx(ex, ())
        it = Interp(m, ctx)
        it.env = Env(it)
        total += 1
        try:
            aa = tuple(bytes.fromhex(a))
            if name.startswith('fs_'):
                it.env.add_dir(b'/w/t')
                aa = tuple(b'/w/t')
            res = it.call_mir(fn, [StrV(aa), StrV(tuple(bytes.fromhex(b)))])
            got = bytes(res.b).hex()
        except RustPanic:
            got = b'PANIC'.hex()
        except Exception as e:
            unsupported.setdefault(name, str(e)[:160])
            got = None
        finally:
            ex.solver.pop()
        if got is not None and got != want:
            bad += 1
            print('MISMATCH %s(%r, %r): native %r, model %r' % (name, bytes.fromhex(a), bytes.fromhex(b), bytes.fromhex(want), bytes.fromhex(got)))
    for k, v in unsupported.items():
        print('UNSUPPORTED in %s: %s' % (k, v))
    print('%d cases, %d mismatches, %d functions unsupported' % (total, bad, len(unsupported)))
    return 1 if bad else 0


if __name__ == '__main__':
    sys.exit(main())
