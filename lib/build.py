"""Scratch copy of /repo's working tree + regeneration of everything a check needs from it."""
import atexit
import hashlib
import os
import shutil
import subprocess
import sys
import tempfile
import time

VERIF = os.path.dirname(os.path.dirname(os.path.abspath(__file__)))
REPO = os.environ.get('VERIF_REPO', '/repo')
CACHE = os.path.join(VERIF, '.cache')

_scratch = None


def scratch_dir():
    global _scratch
    if _scratch is None:
        base = os.environ.get('VERIF_SCRATCH_BASE', '/var/tmp')
        os.makedirs(base, exist_ok=True)
        _scratch = tempfile.mkdtemp(prefix='txtpp-verif-', dir=base)
        atexit.register(lambda: shutil.rmtree(_scratch, ignore_errors=True))
    return _scratch


def copy_repo():
    """copy the current working tree of /repo (not HEAD) without build output"""
    dst = os.path.join(scratch_dir(), 'repo')
    if os.path.exists(dst):
        return dst
    # --no-times: every file of the copy is newer than anything in the shared target directories, so cargo never mistakes the
    # artefacts of an earlier run (possibly built from a different tree: its unit hash does not depend on the absolute path)
    # for a fresh build of this one
    subprocess.run(['rsync', '-a', '--no-times', '--exclude', 'target', '--exclude', '.git', REPO + '/', dst + '/'], check=True)
    return dst


def source_hash(repo):
    h = hashlib.sha256()
    for dp, dn, fn in sorted(os.walk(os.path.join(repo, 'src'))):
        dn.sort()
        for f in sorted(fn):
            p = os.path.join(dp, f)
            h.update(os.path.relpath(p, repo).encode())
            h.update(open(p, 'rb').read())
    return h.hexdigest()[:16]


def _env(target):
    e = dict(os.environ)
    e['CARGO_NET_OFFLINE'] = 'true'
    e['CARGO_TARGET_DIR'] = os.path.join(CACHE, target)
    e['CARGO_INCREMENTAL'] = '0'
    e.pop('RUSTFLAGS', None)
    return e


def prune_cache(target, max_age_s=1800):
    """every run compiles the txtpp crate from a fresh scratch path, so its artefacts pile up in the shared target
    directory; drop those (and only those) that no run of the last half hour can still need"""
    now = time.time()
    for prof in ('debug', 'release'):
        base = os.path.join(CACHE, target, prof)
        inc = os.path.join(base, 'incremental')
        if os.path.isdir(inc):
            for d in os.listdir(inc):
                p = os.path.join(inc, d)
                try:
                    if now - os.path.getmtime(p) > max_age_s:
                        shutil.rmtree(p, ignore_errors=True)
                except OSError:
                    pass
        for sub in ('deps', '.fingerprint'):
            dd = os.path.join(base, sub)
            if not os.path.isdir(dd):
                continue
            for f in os.listdir(dd):
                if not (f.startswith(('txtpp', 'libtxtpp', 'modelcheck', 'libmodelcheck'))):
                    continue
                p = os.path.join(dd, f)
                try:
                    if now - os.path.getmtime(p) > max_age_s:
                        if os.path.isdir(p):
                            shutil.rmtree(p, ignore_errors=True)
                        else:
                            os.remove(p)
                except OSError:
                    pass


def mir_dump(repo, kind='lib'):
    """textual MIR of the crate as compiled without optional features (what users of the library get)"""
    out = os.path.join(scratch_dir(), 'mir-%s.txt' % kind)
    if os.path.exists(out):
        return open(out).read()
    os.utime(os.path.join(repo, 'src', 'lib.rs'))
    os.utime(os.path.join(repo, 'src', 'main.rs'))
    if kind == 'lib':
        cmd = ['cargo', '+nightly', 'rustc', '--offline', '--lib', '--no-default-features']
    elif kind == 'bin':
        cmd = ['cargo', '+nightly', 'rustc', '--offline', '--bin', 'txtpp', '--features', 'cli']
    elif kind == 'test':
        cmd = ['cargo', '+nightly', 'rustc', '--offline', '--lib', '--no-default-features', '--profile', 'test']
    else:
        raise ValueError(kind)
    cmd += ['--', '-Zunpretty=mir', '-C', 'debug-assertions=off', '-C', 'overflow-checks=on']
    t0 = time.time()
    with target_lock('target-mir'):
        _touch_sources(repo)
        r = subprocess.run(cmd, cwd=repo, env=_env('target-mir'), stdout=subprocess.PIPE, stderr=subprocess.PIPE, text=True)
    if r.returncode != 0 or not r.stdout.strip():
        sys.stderr.write(r.stderr[-4000:])
        raise RuntimeError("MIR dump failed (%s)" % kind)
    open(out, 'w').write(r.stdout)
    prune_cache('target-mir')
    return r.stdout


def _touch_sources(repo):
    now = time.time()
    for dp, dn, fn in os.walk(os.path.join(repo, 'src')):
        for f in fn:
            try:
                os.utime(os.path.join(dp, f), (now, now))
            except OSError:
                pass
    for f in ('Cargo.toml', 'build.rs'):
        p = os.path.join(repo, f)
        if os.path.exists(p):
            os.utime(p, (now, now))


class target_lock:
    """exclusive use of one shared cargo target directory"""
    def __init__(self, name):
        os.makedirs(CACHE, exist_ok=True)
        self.path = os.path.join(CACHE, name + '.lock')

    def __enter__(self):
        import fcntl
        self.f = open(self.path, 'w')
        fcntl.flock(self.f, fcntl.LOCK_EX)
        return self

    def __exit__(self, *a):
        self.f.close()


_native = {}


def build_native(repo, release=False):
    """build the real txtpp binary + the replay helper against the scratch copy; returns dict of paths"""
    if (repo, release) in _native:
        return _native[(repo, release)]
    _native[(repo, release)] = r = _build_native(repo, release)
    return r


def _build_native(repo, release=False):
    rp = os.path.join(scratch_dir(), 'replay')
    if not os.path.exists(rp):
        shutil.copytree(os.path.join(VERIF, 'replay'), rp, ignore=shutil.ignore_patterns('target'))
        cargo = open(os.path.join(rp, 'Cargo.toml')).read().replace('@REPO@', repo)
        open(os.path.join(rp, 'Cargo.toml'), 'w').write(cargo)
        shutil.copy(os.path.join(repo, 'Cargo.lock'), os.path.join(rp, 'Cargo.lock'))
    cmd = ['cargo', 'build', '--offline']
    if release:
        cmd.append('--release')
    prof = 'release' if release else 'debug'
    d = os.path.join(CACHE, 'target-replay', prof)
    bind = os.path.join(scratch_dir(), 'bin-' + prof)
    os.makedirs(bind, exist_ok=True)
    os.makedirs(CACHE, exist_ok=True)
    # the target directory is shared by every run (for the dependency cache), so two checks running at the same time against
    # different trees would overwrite each other's binaries: build and copy out under one lock, then use the private copies
    import fcntl
    with open(os.path.join(CACHE, 'target-replay.lock'), 'w') as lk:
        fcntl.flock(lk, fcntl.LOCK_EX)
        # cargo decides freshness by comparing source mtimes with the artefacts in the (shared) target directory: another run may
        # have built a DIFFERENT tree after this run's copy was made.  Touching the sources while holding the lock makes them newer
        # than every artefact any earlier holder of the lock can have produced.
        _touch_sources(repo)
        for where in (rp, repo):
            r = subprocess.run(cmd, cwd=where, env=_env('target-replay'), stdout=subprocess.PIPE, stderr=subprocess.PIPE, text=True)
            if r.returncode != 0:
                sys.stderr.write(r.stderr[-6000:])
                raise RuntimeError("native build failed")
        for b in ('txtpp-replay', 'txtpp'):
            shutil.copy2(os.path.join(d, b), os.path.join(bind, b))
        prune_cache('target-replay')
    return {'replay': os.path.join(bind, 'txtpp-replay'), 'txtpp': os.path.join(bind, 'txtpp')}


_faultinj = []


def faultinj_so():
    """LD_PRELOAD fault injector for native replays of I/O-failure counterexamples (None when no C compiler is available)"""
    if _faultinj:
        return _faultinj[0]
    out = os.path.join(scratch_dir(), 'faultinj.so')
    src = os.path.join(VERIF, 'replay', 'faultinj', 'faultinj.c')
    so = None
    for cc in ('cc', 'gcc', 'clang'):
        if shutil.which(cc):
            r = subprocess.run([cc, '-shared', '-fPIC', '-O1', '-o', out, src, '-ldl'], stdout=subprocess.PIPE, stderr=subprocess.PIPE)
            if r.returncode == 0:
                so = out
                break
    _faultinj.append(so)
    return so


_machine = None


def machine(kinds=('lib',)):
    global _machine
    if _machine is None:
        sys.path.insert(0, VERIF)
        from mirsym.interp import Machine
        repo = copy_repo()
        texts = [mir_dump(repo, k) for k in kinds]
        _machine = Machine(texts, repo)
        _machine.src_hash = source_hash(repo)
    return _machine
