#!/usr/bin/env python3
"""(Re)generate MANIFEST.json from the table below — keeps the manifest valid at all times."""
import json, os
VERIF = os.path.dirname(os.path.dirname(os.path.abspath(__file__)))

CLAIMED = {
    'C15': dict(
        text='Bounded symbolic model checking of the real code: Directive::detect_from and Directive::add_line are executed '
             'symbolically from rustc MIR for every ASCII line up to the stated byte length (plus non-ASCII layouts) and '
             'compared with the README grammar (G1/G2); z3 decides every path and assertion, cvc5 re-decides every unsat '
             'verdict, counterexamples are replayed on the natively compiled functions before being reported. Continuation across passes: a page documenting directives inside a write block after a real dependency, through the whole-project harness (props/project.py). Round 4: lines with two TXTPP# (fixed tokens + free bytes, 12-15 bytes), prefixes with multi-byte characters (either reading of the padding length, but one).',
        ref='DESIGN.md 5 (C15), 3.3',
        note='bounds: line <= 9 bytes (quick) / 12 (thorough); std callees are contract models; MIR of nightly rustc; '
             'symbolic bytes are ASCII (non-ASCII at enumerated positions)',
        technique='symbolic execution of rustc MIR + SMT (z3, cvc5 cross-check), native replay'),
    'C01': dict(
        text='Bounded symbolic model checking of the real code: `preprocess` (Pp::run_internal, iterate_directive, execute_directive, '
             'format_directive_output, IOCtx, TagState, detect_from, add_line) is executed from rustc MIR on symbolic source files '
             '(line menus with symbolic bytes, LF/CRLF, final newline) inside symbolic file-system and process models and compared '
             'with the reference semantics of DESIGN.md 4.1: verdict, output bytes, temp bytes, command lines. The reference semantics '
             'is pinned to the repository golden fixtures; counterexamples are replayed with the real binary. Temp and output files of older builds may be lying at the targets (symbolic pre-existing bytes). Round 4: first lines longer than the reader buffer; write with an empty first argument.',
        ref='DESIGN.md 4, 5 (C01)',
        note='bounds: 0-3 lines (quick) / up to 4 (thorough) over the stated menus; one source per run (composition over files is C02); '
             'FS/process behaviour is a contract model; input domain D1-D12',
        technique='symbolic execution of rustc MIR + SMT (z3, cvc5 cross-check) against an executable reference semantics, native replay'),
    'C13': dict(
        text='2-safety by self-composition on the real code: `preprocess` is executed symbolically twice (option on / off) on the same '
             'symbolic source and world; outputs must be equal up to one final line ending, temp files and verdict equal, and a source '
             'ending in a text line must end with / without the line ending; includes on->off histories in Build and --needed mode. Additionally the whole-project harness (props/project.py): the real Txtpp::run with the real preprocess on small multi-file trees through a history of runs, the whole tree compared byte for byte with a project-level reference semantics. Round 4: per-step options in project histories (build with the option on, verify with it off and vice versa); the real main() with -n after the sub-command.',
        ref='DESIGN.md 5 (C13)',
        note='bounds as C01; commands deterministic (D8); the -n flag mapping in main.rs is not part of this check',
        technique='symbolic execution of rustc MIR, self-composition, SMT (z3 + cvc5), native replay'),
    'C14': dict(
        text='Bounded symbolic model checking of TagState::{create, try_store, inject_tags, has_tags} and replace_line_ending from MIR: '
             'operation sequences with symbolic tag names, contents and target lines, with the HashMap iteration order as a fork point, '
             'compared step by step with an order-free reference model of the tag rules. Whole files (real preprocess): which directive a listening tag captures, including empty outputs.',
        ref='DESIGN.md 5 (C14)',
        note='bounds: 1-3 tags, names 1-2 bytes over {A,B}, contents <=3 bytes over {A,B,LF,CR}, lines <=6 bytes over {A,B,x}; HashMap modelled as '
             'association list with every iteration order; whole-file tag paths (capture, EOF error) are covered by C01',
        technique='symbolic execution of rustc MIR + SMT (z3, cvc5 cross-check), native replay'),
    'C12': dict(
        text='Bounded symbolic model checking of the real code: (1) get_line_ending / get_line_ending_from_buf from MIR equal "terminator of '
             'the first line" for every buffer within the bound, including first lines longer than the 8 KiB reader buffer; (2) real '
             '`preprocess` on sources mixing LF/CRLF per line, in included files, command output and stored tag content, and on stale '
             'generated files: every byte of the output / temp file is checked by the solver against the first-line ending. A transient I/O failure while the source is read must not change the line ending of a run that succeeds (fault injection, replayed natively with an LD_PRELOAD shim). Round 4: sources with different line endings processed one after the other by the same worker (thread-local state is modelled).',
        ref='DESIGN.md 5 (C12)', note='bounds in evidence; D1 (CR only before LF); FS/process contract models',
        technique='symbolic execution of rustc MIR + SMT (z3, cvc5 cross-check), native replay'),
    'C16': dict(
        text='Bounded symbolic model checking of the real code: (a) every source of symbolic lines that G1 classifies as ordinary text is '
             'reproduced line for line by the real `preprocess`; (b) texts made of directive look-alike tokens and symbolic bytes, escaped '
             'with write, come out exactly, also with a stored tag whose name occurs in the text. Raw sources over {x, CR, LF} (lone CR, CR CR LF) and two tags holding write text that spells the other tag\'s name. Round 4: first lines longer than the 8 KiB reader buffer in a whole-file run; write whose text starts on the following line.',
        ref='DESIGN.md 5 (C16)', note='bounds in evidence; escaped text has no leading blank on the first line / no trailing blanks',
        technique='symbolic execution of rustc MIR + SMT (z3, cvc5 cross-check), native replay'),
    'C06': dict(
        text='Bounded symbolic model checking of the real code: `preprocess` in Verify mode over symbolic sources and a fully symbolic existing '
             'output (absent / any bytes of every length in the bound): Ok <=> exists and equals the reference build output; the FS-model '
             'mutation log proves read-only behaviour; first pass in verify mode reports .txtpp-backed dependencies. Additionally the whole-project harness (props/project.py): the real Txtpp::run with the real preprocess on small multi-file trees through a history of runs, the whole tree compared byte for byte with a project-level reference semantics. Round 4: outputs with multi-byte characters against arbitrary existing bytes (exact model of from_utf8_lossy on symbolic bytes); the real main() for the verify sub-command with every flag placement.',
        ref='DESIGN.md 5 (C06)', note='bounds in evidence; FS contract model with 8 KiB BufReader; D1-D12', technique='symbolic execution of rustc MIR over symbolic FS pre-states + SMT (z3, cvc5 cross-check), native replay'),
    'C07': dict(
        text='Bounded symbolic model checking of the real code: histories build->clean, clean, build->clean->clean of the real `preprocess` on '
             'symbolic sources (including erroneous ones) in the FS/process models: generated files removed, decoys and sources intact, no '
             'Command ever constructed, nothing created, clean returns Ok. Additionally the whole-project harness (props/project.py): the real Txtpp::run with the real preprocess on small multi-file trees through a history of runs, the whole tree compared byte for byte with a project-level reference semantics. Round 4: a directory sitting at a temp target; the real main() for the clean sub-command with every flag placement.',
        ref='DESIGN.md 5 (C07)', note='bounds in evidence; name-shape x.txtpp.txtpp is handled in C11', technique='symbolic execution of rustc MIR over symbolic FS pre-states + SMT (z3, cvc5 cross-check), native replay'),
    'C08': dict(
        text='2-safety on the real code: Build from a fully symbolic pre-state of the generated paths (absent / arbitrary bytes incl. invalid '
             'UTF-8) vs Build from a clean tree: equal verdict, output and temp bytes; stale dependency outputs are rebuilt first '
             '(first pass reports the dependency for all three source-name shapes). Additionally the whole-project harness (props/project.py): the real Txtpp::run with the real preprocess on small multi-file trees through a history of runs, the whole tree compared byte for byte with a project-level reference semantics. Round 4: --needed on sources whose output is empty or ends in output-less directives.',
        ref='DESIGN.md 5 (C08), 6 (F2 fixed)', note='bounds in evidence; SIGKILL over-approximated by arbitrary pre-states', technique='symbolic execution of rustc MIR over symbolic FS pre-states + SMT (z3, cvc5 cross-check), native replay'),
    'C09': dict(
        text='2-safety on the real code: InMemoryBuild vs Build from the same symbolic pre-state: equal verdict and final bytes; FS-model log: '
             'an up-to-date output (--needed) / temp file (every mode) is not touched, a stale one is rewritten. Additionally the whole-project harness (props/project.py): the real Txtpp::run with the real preprocess on small multi-file trees through a history of runs, the whole tree compared byte for byte with a project-level reference semantics. Round 4: positional writes (a handle opened without truncation) are modelled faithfully.',
        ref='DESIGN.md 5 (C09)', note='bounds in evidence; -N flag mapping checked in C17 cli harness', technique='symbolic execution of rustc MIR over symbolic FS pre-states + SMT (z3, cvc5 cross-check), native replay'),
    'C10': dict(
        text='Monitor on the real code: all four modes, successful and failing sources, optional injected I/O fault, decoy files: every '
             'mutating std::fs call logged by the FS model targets the output or a temp target; verify leaves the output alone; clean '
             'creates nothing. Additionally the whole-project harness (props/project.py): the real Txtpp::run with the real preprocess on small multi-file trees through a history of runs, the whole tree compared byte for byte with a project-level reference semantics. Round 4: prefix-less (erroneous) directives next to a hand-written file in every mode; the library entry point with an empty input list.',
        ref='DESIGN.md 5 (C10)', note='bounds in evidence; input selection / directory scanning is C11', technique='symbolic execution of rustc MIR over symbolic FS pre-states + SMT (z3, cvc5 cross-check), native replay'),
    'C02': dict(
        text='Bounded model checking of the real coordinator: Txtpp::run (Shell::new, resolve_inputs, execute_file/_directory, scan_dir, '
             'DepManager, Progress, Drop) is executed from MIR under a scheduler model in which ThreadPool::execute queues the real worker '
             'closure and Receiver::try_recv forks over which in-flight task completes next; for every DAG within the bound, every input '
             'selection and every completion order a file is finalised only after all its dependencies, and on success every required '
             'file is final exactly once. `preprocess` is abstracted by a lemma that is itself decided on the real code (first pass '
             'reports exactly the .txtpp-backed targets, runs nothing after the first, final pass never reports). Additionally the whole-project harness (props/project.py): the real Txtpp::run with the real preprocess on small multi-file trees through a history of runs, the whole tree compared byte for byte with a project-level reference semantics. Round 4: dependencies whose fresh output is empty over older non-empty ones; one dependency already complete when the dependency list arrives.',
        ref='DESIGN.md 5 (C02), 3.3 scheduler model',
        note='worker bodies atomic w.r.t. the coordinator; graph / schedule variables are environment fork points (every value feasible, '
             'no solver query needed to split on them), the solver decides the byte-level lemma; bounds <=3 files quick / 4 thorough',
        technique='symbolic execution of rustc MIR with a scheduler model (task completion order, dependency digraph and failures as fork points of the environment), native replay with forced timing'),
    'C03': dict(
        text='Same harness with arbitrary digraphs, duplicate/aliased/directory inputs and Clean mode: the coordinator loop exits on every '
             'path (polling an empty channel with nothing in flight is reported as hang), no result stays unread, exactly one first pass '
             'and at most one final pass per file, nothing unrequested is processed. Termination when a task fails with few threads (bounded channels: a sender blocked on a full channel while the coordinator waits in join is a hang); dependency lists naming a file twice. Round 4: sources reached through symbolic links; failing writes to the terminal (progress display) with a clock fork; the library entry point with an empty input list.',
        ref='DESIGN.md 5 (C03)', note='as C02', technique='symbolic execution of rustc MIR with a scheduler model (task completion order, dependency digraph and failures as fork points of the environment), native replay with forced timing'),
    'C04': dict(
        text='(a) coordinator under the scheduler model with failing tasks at any graph position and completion order => run returns Err; '
             '(b) real `preprocess` in all modes with the FS/process models in fault mode (any single std::fs / io call may return Err, '
             'commands may exit non-zero): a fault or prescribed error surfaces as Err, and Ok implies output and temp file complete and '
             'equal to the reference semantics; verify on tampered outputs fails. Commands may also die by a signal; read/open/create/write failures are replayed natively with an LD_PRELOAD fault injector. Round 4: failing writes to the terminal while a task fails; failing sources behind symbolic links.',
        ref='DESIGN.md 5 (C04)', note='faults are Err returns at the std API, replayed natively with /dev/full where the OS can produce them; '
             'main.rs Err => ExitCode::FAILURE is covered by C17 cli harness', technique='symbolic execution of rustc MIR with fault-injecting FS/process models and scheduler model + SMT (z3, cvc5), native replay'),
    'C05': dict(
        text='Same coordinator harness over all digraphs with self loops: a required file reaches a cycle <=> the run fails (never hangs, never '
             'succeeds); files that cannot reach a cycle are final exactly once in that run; acyclic projects never fail. Lemma on the real '
             'code: a self-including file reports itself as dependency. Dependency lists naming a file twice; a loop inside run() that exceeds the interpreter\'s loop bound is a hang candidate confirmed by a native run under a timeout.',
        ref='DESIGN.md 5 (C05)', note='as C02', technique='symbolic execution of rustc MIR with a scheduler model (task completion order, dependency digraph and failures as fork points of the environment), native replay with forced timing'),
    'C11': dict(
        text='Bounded symbolic model checking of the real code: (1) is_txtpp_file / remove_txtpp / get_txtpp_file from MIR on every file name '
             'over {a . t x p} up to the bound against the naming rules (with a symbolic which-candidates-exist oracle and the round trip); '
             '(2) the real Txtpp::run (resolve_inputs, scan_dir, execute_directory, dedup) on symbolic directory trees and input lists: '
             'the processed set equals the specified one, missing targets fail, every source is processed once. Additionally the whole-project harness (props/project.py): the real Txtpp::run with the real preprocess on small multi-file trees through a history of runs, the whole tree compared byte for byte with a project-level reference semantics. Round 4: output names with dotted stems looked up by get_txtpp_file; sources reached through symbolic links; empty input list.',
        ref='DESIGN.md 5 (C11)', note='D9: names with empty dot-separated components and x.txtpp.txtpp are outside the domain; no symlinks; '
             'selection runs under one fixed schedule (order independence is C03)',
        technique='symbolic execution of rustc MIR + SMT (z3, cvc5 cross-check), native replay'),
    'C17': dict(
        text='Bounded symbolic model checking of the real code: preprocess -> execute_directive(Run) -> Shell::run / Shell::new with a recording '
             'process model for sources at depth 0-3 and process cwd equal / ancestor / unrelated to the base directory: program, arguments, '
             'joined command, working directory, TXTPP_FILE, status handling; real main() from the bin MIR on an arbitrary parsed Cli: '
             'TXTPP_FILE guard, flag mapping (-N, -n, -j, -r, sub-commands), Err => FAILURE. Sources outside the base directory; a shell found through a relative PATH entry (program resolved against the child\'s working directory). Round 4: TXTPP_FILE of sources reached as dependencies from a sub-directory (project harness with `printenv TXTPP_FILE`); entries named like the shell in the process working directory.',
        ref='DESIGN.md 5 (C17), 6 (F3 fixed)', note='clap parsing itself is outside the claim; std::process is a recording contract model',
        technique='symbolic execution of rustc MIR (lib + bin) + SMT (z3, cvc5 cross-check), native replay through the library entry point'),
    'C18': dict(
        text='Bounded symbolic model checking of the real code: every MIR assert / unreachable / panic call and every std-model precondition is an '
             'error state; leaf functions on raw bytes with non-ASCII characters at every position, the real preprocess on arbitrary byte '
             'files / included files / pre-existing files in all four modes, Txtpp::run with 0..16 threads, and workers outliving a failed '
             'run; coordinator hangs are C03. Shell::new on arbitrary option bytes; no hang when a task fails with 1-2 threads. Round 4: commands writing more than a pipe holds (spawn / wait / pipe-capacity model); the library entry point with an empty input list.',
        ref='DESIGN.md 5 (C18), 6 (F1 fixed)', note='panics inside std that the contract models do not describe are invisible to the MIR engine; '
             'bounded sizes; no resource exhaustion', technique='symbolic execution of rustc MIR + SMT (z3, cvc5 cross-check), native replay'),
}

PENDING_REASON = 'check not built yet in this revision (under construction, see DESIGN.md 9); nothing is claimed'

def main():
    ids = ['C%02d' % i for i in range(1, 19)]
    checks = []
    for pid in ids:
        if pid not in CLAIMED:
            continue
        c = CLAIMED[pid]
        checks.append({
            'property_id': pid,
            'quick_cmd': './check %s --tier quick' % pid,
            'thorough_cmd': './check %s --tier thorough' % pid,
            'evidence_file': 'evidence/%s.json' % pid,
            'replay_cmd_template': './check %s --replay {path}' % pid,
            'engine': c.get('engine', 'mirsym'),
            'level_claimed': {'category': 'model_checking', 'text': c['text'], 'design_ref': c['ref']},
            'level_note': c['note'],
            'technique': c['technique'],
        })
    na = [{'property_id': pid, 'reason': NA.get(pid, PENDING_REASON)} for pid in ids if pid not in CLAIMED]
    m = {
        'version': 1,
        'setup_cmd': './setup.sh',
        'hooks': {
            'guard': 'cargo feature `verif`',
            'enable': 'cargo build --features verif (used by the native replay helper /verif/replay and the Kani crate; the MIR engine needs no hooks)',
            'baseline_off_cmd': 'cd /repo && cargo test --workspace --no-fail-fast --offline',
            'source_commits': ['e9869a8'],
            'add_only': True,
        },
        'engines': [
            {'name': 'mirsym', 'path': 'mirsym/', 'serves_properties': sorted(CLAIMED),
             'kind_free_text': 'symbolic executor for rustc textual MIR written for this task (Python), byte-vector strings, '
                               'z3 in-process, cvc5 batch re-check, contract models for std/FS/process/scheduler'},
            {'name': 'kani', 'path': 'kani/', 'serves_properties': ['C12', 'C15', 'C18'],
             'kind_free_text': 'Kani 0.68 / CBMC harnesses on the compiled leaf functions (second lowering, real std): line-ending detection, '
                               'directive name table, detect_from == G1 (<=6 bytes), detect_from panic freedom (<=5 bytes)'},
            {'name': 'native-replay', 'path': 'replay/', 'serves_properties': sorted(CLAIMED),
             'kind_free_text': 'Rust helper linking the real txtpp (feature verif) to replay solver counterexamples'},
        ],
        'checks': checks,
        'not_applicable': na,
        'notes': 'Every check copies /repo\'s working tree to a scratch dir, regenerates MIR + native helper from it and '
                 'removes the scratch dir on exit. exit 0 = all queries discharged; 1 = natively reproduced violation; '
                 '2 = inconclusive (solver unknown, bound exceeded, unsupported construct, cvc5 disagreement).',
    }
    json.dump(m, open(os.path.join(VERIF, 'MANIFEST.json'), 'w'), indent=1)

NA = {}
if __name__ == '__main__':
    main()
