#!/usr/bin/env python3
"""(Re)generate MANIFEST.json from the table below — keeps the manifest valid at all times."""
import json, os
VERIF = os.path.dirname(os.path.dirname(os.path.abspath(__file__)))

CLAIMED = {
    'C15': dict(
        text='Bounded symbolic model checking of the real code: Directive::detect_from and Directive::add_line are executed '
             'symbolically from rustc MIR for every ASCII line up to the stated byte length (plus non-ASCII layouts) and '
             'compared with the README grammar (G1/G2); z3 decides every path and assertion, cvc5 re-decides every unsat '
             'verdict, counterexamples are replayed on the natively compiled functions before being reported.',
        ref='DESIGN.md 5 (C15), 3.3',
        note='bounds: line <= 9 bytes (quick) / 12 (thorough); std callees are contract models; MIR of nightly rustc; '
             'symbolic bytes are ASCII (non-ASCII at enumerated positions)',
        technique='symbolic execution of rustc MIR + SMT (z3, cvc5 cross-check), native replay'),
}

PENDING_REASON = 'check not built yet in this revision (under construction, see DESIGN.md 9); nothing is claimed'

def main():
    ids = ['C%02d' % i for i in range(1, 19)]
    checks = []
    for pid in ids:
        if pid not in CLAIMED:
            continue
        c = CLAIMED[pid]
        checks.append({
            'property_id': pid,
            'quick_cmd': './check %s --tier quick' % pid,
            'thorough_cmd': './check %s --tier thorough' % pid,
            'evidence_file': 'evidence/%s.json' % pid,
            'replay_cmd_template': './check %s --replay {path}' % pid,
            'engine': c.get('engine', 'mirsym'),
            'level_claimed': {'category': 'model_checking', 'text': c['text'], 'design_ref': c['ref']},
            'level_note': c['note'],
            'technique': c['technique'],
        })
    na = [{'property_id': pid, 'reason': NA.get(pid, PENDING_REASON)} for pid in ids if pid not in CLAIMED]
    m = {
        'version': 1,
        'setup_cmd': './setup.sh',
        'hooks': {
            'guard': 'cargo feature `verif`',
            'enable': 'cargo build --features verif (used by the native replay helper /verif/replay and the Kani crate; the MIR engine needs no hooks)',
            'baseline_off_cmd': 'cd /repo && cargo test --workspace --no-fail-fast --offline',
            'source_commits': ['e9869a8'],
            'add_only': True,
        },
        'engines': [
            {'name': 'mirsym', 'path': 'mirsym/', 'serves_properties': sorted(CLAIMED),
             'kind_free_text': 'symbolic executor for rustc textual MIR written for this task (Python), byte-vector strings, '
                               'z3 in-process, cvc5 batch re-check, contract models for std/FS/process/scheduler'},
            {'name': 'native-replay', 'path': 'replay/', 'serves_properties': sorted(CLAIMED),
             'kind_free_text': 'Rust helper linking the real txtpp (feature verif) to replay solver counterexamples'},
        ],
        'checks': checks,
        'not_applicable': na,
        'notes': 'Every check copies /repo\'s working tree to a scratch dir, regenerates MIR + native helper from it and '
                 'removes the scratch dir on exit. exit 0 = all queries discharged; 1 = natively reproduced violation; '
                 '2 = inconclusive (solver unknown, bound exceeded, unsupported construct, cvc5 disagreement).',
    }
    json.dump(m, open(os.path.join(VERIF, 'MANIFEST.json'), 'w'), indent=1)

NA = {}
if __name__ == '__main__':
    main()
