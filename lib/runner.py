"""Parallel driver for mirsym explorations + cvc5 cross-check of every unsat verdict."""
import importlib
import multiprocessing as mp
import os
import subprocess
import sys
import time

from . import build

sys.path.insert(0, build.VERIF)
from mirsym.core import Explorer, Stats  # noqa: E402


def _load(h):
    mod, fn = h
    return getattr(importlib.import_module(mod), fn)


def _mk_harness(job):
    f = _load(job['harness'])
    m = build.machine(tuple(job.get('mir', ('lib',))))
    params = job.get('params', {})
    return lambda ctx: f(m, ctx, **params)


def _result(ex, job, roots_done):
    st = ex.stats
    return {
        'job': job['name'],
        'stats': st,
        'violations': [{'msg': v.msg, 'data': v.data} for v in ex.violations],
        'inconclusive': list(ex.inconclusive),
        'samples': ex.samples,
        'truncated': ex.truncated,
        'cvc5_queries': ex.cvc5_count,
    }


def _work(arg):
    job, roots, logpath, seed = arg
    t0 = time.time()
    log = open(logpath, 'w') if logpath else None
    if log:
        log.write('(set-logic QF_BV)\n')
    ex = Explorer(_mk_harness(job), max_steps=job.get('max_steps', 2_000_000), cvc5_log=log, seed=seed,
                  time_budget=job.get('time_budget'), max_paths=job.get('max_paths'))
    ex.stop_on_violation = job.get('stop_on_violation', True)
    if seed:
        roots = list(roots)
        import random
        random.Random(seed).shuffle(roots)
    ex.explore(roots)
    if log:
        log.close()
    r = _result(ex, job, roots)
    r['wall'] = time.time() - t0
    r['log'] = logpath
    return r


def _cvc5(path):
    if not path or not os.path.exists(path):
        return (0, 0, '')
    n = 0
    with open(path) as f:
        for line in f:
            if line.startswith('(check-sat)'):
                n += 1
    if n == 0:
        return (0, 0, '')
    t0 = time.time()
    r = subprocess.run(['cvc5', '--incremental', '--lang', 'smt2', path], stdout=subprocess.PIPE,
                       stderr=subprocess.PIPE, text=True)
    out = r.stdout.split()
    bad = ''
    if '(error' in r.stdout or r.returncode != 0 or r.stderr.strip():
        bad = 'cvc5 error: ' + (r.stdout + r.stderr)[-300:]
    elif len(out) != n or any(x != 'unsat' for x in out):
        bad = 'cvc5 disagrees with z3 on %d of %d unsat verdicts' % (sum(1 for x in out if x != 'unsat') + abs(n - len(out)), n)
    return (n, time.time() - t0, bad)


class Outcome:
    def __init__(self):
        self.stats = Stats()
        self.violations = []
        self.inconclusive = []
        self.samples = []
        self.jobs = []
        self.cvc5_queries = 0
        self.cvc5_time = 0.0
        self.wall = 0.0
        self.truncated = False


def run_jobs(jobs, nproc=None, seed=0, cross_check=True):
    """jobs: list of dicts {name, harness:(module,fn), params:{}, split:int, mir:(..)}"""
    t0 = time.time()
    nproc = nproc or min(16, os.cpu_count() or 4)
    scratch = build.scratch_dir()
    # load machine(s) before forking
    for j in jobs:
        build.machine(tuple(j.get('mir', ('lib',))))
    out = Outcome()
    tasks = []
    for ji, job in enumerate(jobs):
        split = job.get('split', 1)
        if split > 1:
            ex = Explorer(_mk_harness(job), max_steps=job.get('max_steps', 2_000_000))
            log0 = os.path.join(scratch, 'q-%d-root.smt2' % ji)
            ex.cvc5_log = open(log0, 'w')
            ex.cvc5_log.write('(set-logic QF_BV)\n')
            # expand well beyond the worker count and hand out small chunks: subtrees differ a lot in size, the pool
            # then balances dynamically
            roots = ex.expand(split * 12)
            ex.cvc5_log.close()
            r = _result(ex, job, None)
            r['wall'] = 0
            r['log'] = log0
            _merge(out, r)
            csize = 3
            chunks = [roots[i:i + csize] for i in range(0, len(roots), csize)]
            for ci, ch in enumerate(chunks):
                if ch:
                    tasks.append((job, ch, os.path.join(scratch, 'q-%d-%d.smt2' % (ji, ci)) if cross_check else None, seed))
        else:
            tasks.append((job, [()], os.path.join(scratch, 'q-%d.smt2' % ji) if cross_check else None, seed))
    logs = [os.path.join(scratch, f) for f in os.listdir(scratch) if f.startswith('q-') and f.endswith('root.smt2')]
    ctxmp = mp.get_context('fork')
    with ctxmp.Pool(nproc) as pool:
        for r in pool.imap_unordered(_work, tasks, chunksize=1):
            _merge(out, r)
            if r.get('log'):
                logs.append(r['log'])
        if cross_check:
            for n, t, bad in pool.imap_unordered(_cvc5, logs):
                out.cvc5_queries += n
                out.cvc5_time += t
                if bad:
                    out.inconclusive.append(bad)
    for l in logs:
        try:
            os.remove(l)
        except OSError:
            pass
    out.wall = time.time() - t0
    return out


def _merge(out, r):
    out.stats.merge(r['stats'])
    for v in r['violations']:
        v['job'] = r['job']
        out.violations.append(v)
    out.inconclusive.extend('%s: %s' % (r['job'], x) for x in r['inconclusive'])
    for s in r['samples']:
        if len(out.samples) < 40:
            s = dict(s)
            s['job'] = r['job']
            out.samples.append(s)
    out.truncated = out.truncated or r['truncated']
    out.jobs.append({'job': r['job'], 'paths': r['stats'].paths, 'queries': r['stats'].solver_queries,
                     'wall_s': round(r.get('wall', 0), 2)})
