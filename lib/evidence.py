"""Evidence writer (schema: /root/.vp/EVIDENCE.schema.json)."""
import json
import os
import re

from . import build

LEVEL = 'model_checking'


def _path(pid):
    d = os.path.join(build.VERIF, 'evidence')
    os.makedirs(d, exist_ok=True)
    return os.path.join(d, pid + '.json')


def write_failure(pid, tier, seed, wall, err):
    ev = {'property_id': pid, 'tier': tier, 'seed': seed, 'level': 'other', 'wall_s': round(wall, 2), 'violations': 0,
          'coverage': {'explanation': 'check did not complete (tool error, inconclusive): ' + err[:500],
                       'evaluations': 0, 'distinct_nontrivial': 0, 'exhaustive': False},
          'assumptions': []}
    json.dump(ev, open(_path(pid), 'w'), indent=1)


def write(pid, mod, tier, seed, out, machine, wall, nviol, validated, known_hits, extra, rc):
    st = out.stats
    fns = sorted(_short(f) for f in st.functions_run)
    cov = {
        'engine': 'mirsym (MIR symbolic executor, z3 %s; unsat verdicts re-decided by cvc5)' % _z3v(),
        'functions_encoded': fns,
        'source_hash': getattr(machine, 'src_hash', None),
        'bounds': mod.BOUNDS[tier] if isinstance(getattr(mod, 'BOUNDS', None), dict) else getattr(mod, 'BOUNDS', ''),
        'states': st.paths,
        'transitions': st.steps,
        'traces_validated_against_impl': validated,
        'evaluations': st.paths,
        'distinct_nontrivial': st.paths_nontrivial,
        'rule': 'one evaluation = one symbolic path of the harness through the real MIR (a class of inputs / schedules / '
                'pre-states described by its path condition); a path is non-trivial when it took at least one '
                'solver-decided or environment decision, i.e. its condition constrains a symbolic variable; paths are '
                'distinct by construction (decision prefixes are unique); states = paths, transitions = MIR basic blocks executed',
        'queries': st.solver_queries,
        'queries_sat': st.solver_sat,
        'queries_unsat': st.solver_unsat,
        'assertions_discharged_by_solver': st.asserts_discharged,
        'assertions_trivially_equal_terms': st.asserts_trivial,
        'unsat_verdicts_rechecked_by_cvc5': out.cvc5_queries,
        'solver_time_s': round(st.solver_time, 2),
        'cvc5_time_s': round(out.cvc5_time, 2),
        'pruned_branches': st.pruned,
        'max_decisions_on_a_path': st.max_decisions,
        'models_used': sorted(st.models_used),
        'vacuity_witnesses': {k: v for k, v in sorted(st.covers.items())},
        'jobs': len(out.jobs),
        'slowest_jobs': sorted(out.jobs, key=lambda j: -j['wall_s'])[:5],
        'samples': out.samples[:6] or [{'note': 'no non-trivial sample recorded'}],
        'exhaustive': rc in (0, 1) and not out.truncated and not out.inconclusive,
        'known_findings_reported': [h['what'] for h, _ in known_hits.values()],
        'result': {0: 'all queries discharged', 1: 'violation reproduced natively', 2: 'inconclusive'}[rc],
    }
    if extra:
        cov['kani'] = extra.get('evidence')
    ev = {'property_id': pid, 'tier': tier, 'seed': seed, 'level': LEVEL, 'wall_s': round(wall, 2),
          'violations': nviol, 'coverage': cov,
          'assumptions': list(getattr(mod, 'ASSUMPTIONS', [])) + COMMON_ASSUMPTIONS}
    json.dump(ev, open(_path(pid), 'w'), indent=1, default=repr)


COMMON_ASSUMPTIONS = [
    'bounded claim: holds for the stated sizes only; nothing is claimed beyond them',
    'rustc MIR lowering (nightly -Zunpretty=mir of the scratch copy of /repo) is faithful to the shipped build',
    'std / dependency callees are replaced by contract models (listed in models_used), validated by running the '
    'repository unit tests inside the interpreter and by native replay of sampled paths',
    'symbolic bytes inside str values are ASCII; non-ASCII characters enter as concrete code points at enumerated positions',
    'A-hash: std hashers are modelled as injective on the bytes fed to them (SipHash collisions are outside the claim); `static` items with '
    'run-time initialisers are one cell per interpreter (= per process)',
    'z3 decides feasibility and assertions; every unsat verdict is re-decided by cvc5 (disagreement => inconclusive)',
]


def _short(name):
    name = re.sub(r'<impl at (src/[^:]+):(\d+):\d+: \d+:\d+>', lambda m: '<impl@%s:%s>' % (m.group(1), m.group(2)), name)
    return name


def _z3v():
    try:
        import z3
        return z3.get_version_string()
    except Exception:
        return '?'
