#!/bin/bash
# usage: seed_matrix.sh [seed ids...]   -- runs each seed's own property check (quick) against a scratch worktree with the patch applied
# (never touches /repo's working tree); writes /verif/seeded/<id>/detect.txt
set -u
WT=/tmp/wt-matrix
cd /repo && git worktree remove --force $WT 2>/dev/null; git worktree add -q --detach $WT HEAD
cd /verif
seeds="$@"
[ -z "$seeds" ] && seeds=$(cd /verif/seeded && ls -d */ | tr -d /)
for s in $seeds; do
  prop=${s%%-*}
  (cd $WT && git checkout -q -- . && git apply /verif/seeded/$s/patch.diff) || { echo "$s APPLY_FAIL"; continue; }
  t0=$(date +%s)
  out=$(VERIF_REPO=$WT ./check $prop --tier quick --no-evidence 2>&1)
  rc=$?
  t1=$(date +%s)
  what=$(echo "$out" | grep -m1 "what:" | cut -c1-300)
  inc=$(echo "$out" | grep -m1 "INCONCLUSIVE" | cut -c1-300)
  echo "$s prop=$prop rc=$rc secs=$((t1-t0)) $what $inc" | tee /verif/seeded/$s/detect.txt
done
cd /repo && git worktree remove --force $WT
