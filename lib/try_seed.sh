#!/bin/bash
# usage: try_seed.sh <patch.diff> <Cnn> [tier] [extra check args]   -- applies the patch to /repo, runs the check, reverts
set -u
patch="$1"; prop="$2"; tier="${3:-quick}"; shift 3 2>/dev/null || shift $#
cd /repo || exit 9
if ! git diff --quiet; then echo "repo not clean"; exit 9; fi
git apply "$patch" || { echo "patch does not apply"; exit 9; }
cd /verif
./check "$prop" --tier "$tier" --no-evidence "$@"
rc=$?
git -C /repo checkout -- . 
echo "seed rc=$rc"
exit $rc
