#!/bin/bash
# usage: try_seed.sh <seed id | patch.diff> <Cnn> [tier] [extra check args]
# applies the patch in a scratch worktree of /repo (never in /repo itself), runs the check against it, removes the worktree
set -u
patch="$1"; prop="$2"; tier="${3:-quick}"; shift 3 2>/dev/null || shift $#
[ -f "$patch" ] || patch="$(dirname "$(readlink -f "$0")")/../seeded/$patch/patch.diff"
WT=/tmp/wt-try-$$
git -C /repo worktree add -q --detach $WT HEAD || exit 9
(cd $WT && git apply "$patch") || { echo "patch does not apply"; git -C /repo worktree remove --force $WT; exit 9; }
cd "$(dirname "$(readlink -f "$0")")/.."
VERIF_REPO=$WT ./check "$prop" --tier "$tier" --no-evidence "$@"
rc=$?
git -C /repo worktree remove --force $WT
echo "seed rc=$rc"
exit $rc
