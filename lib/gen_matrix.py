#!/usr/bin/env python3
"""Regenerate seeded/MATRIX.md and the detected_by entries of seeded/*/meta.json from seeded/*/detect.txt."""
import json, os, re
S = os.path.join(os.path.dirname(os.path.dirname(os.path.abspath(__file__))), 'seeded')
rows = []
for s in sorted(os.listdir(S)):
    d = os.path.join(S, s)
    if not os.path.isdir(d):
        continue
    t = open(os.path.join(d, 'detect.txt')).read().strip() if os.path.exists(os.path.join(d, 'detect.txt')) else ''
    m = re.match(r'(\S+) prop=(\S+) rc=(\d+) secs=(\d+)\s*(.*)', t)
    meta = json.load(open(os.path.join(d, 'meta.json')))
    patch = open(os.path.join(d, 'patch.diff')).read()
    meta['files_touched'] = sorted(set(re.findall(r'^\+\+\+ b/(\S+)', patch, re.M)))
    if m:
        rc = int(m.group(3))
        msg = re.sub(r'^what: ', '', m.group(5)).split(' | ')[0][:120]
        meta['detected_by'] = [{'check': m.group(2), 'tier': 'quick', 'exit': rc, 'native_reproduction': rc == 1, 'message': msg, 'secs': int(m.group(4))}]
        rows.append((s, meta.get('round', 1), meta['files_touched'], m.group(2), rc, msg))
    json.dump(meta, open(os.path.join(d, 'meta.json'), 'w'), indent=1)
with open(os.path.join(S, 'MATRIX.md'), 'w') as f:
    f.write('# Seeded changes vs checks\n\nEach row: a seed (written by an independent sub-agent from the property text only; `-A/-B` = round 1, `-C/-D` = round 2, `-E/-F` = round 3, `-G/-H` = round 4, `-I/-J` = round 5, `-K` = round 6 (one per property)), '
            'the check run against a worktree with the patch applied (`lib/seed_matrix.sh` / `lib/try_seed.sh`, quick tier, final state of the checks), its exit status '
            '(1 = VIOLATION reproduced natively, 2 = inconclusive, 0 = missed) and the first violation message.\n\n'
            '| seed | round | files touched | check | exit | first message |\n|---|---|---|---|---|---|\n')
    for s, rnd, files, c, rc, msg in rows:
        f.write('| %s | %s | %s | %s | %d | %s |\n' % (s, rnd, ', '.join(x.replace('src/', '') for x in files), c, rc, msg.replace('|', '/')))
    f.write('\n%d of %d seeds are reported as VIOLATION (exit 1) by the quick tier of their own property\'s check.\n' % (sum(1 for r in rows if r[4] == 1), len(rows)))
    f.write('\nFirst contact, i.e. against the checks as they stood before the round was seen (reported / inconclusive / missed of 36): round 2: 22 / 6 / 8; '
            'round 3: 9 / 9 / 18 (`round3-first-contact.txt`); round 4: 4 / 6 / 26 (`round4-first-contact.txt`); round 5: 20 / 5 / 11 (`round5-first-contact.txt`); round 6 (one seed per property, of 18): 17 / 1 / 0 (`round6-first-contact.txt`).  Round 1 was used while the '
            'checks were being built.  See DESIGN.md section 10 for what was strengthened after each round and for the three seeds that are '
            'recorded as not covered (C11-G, C12-H, C14-H, C04-J, C09-J).\n')
print('%d rows, %d detected' % (len(rows), sum(1 for r in rows if r[4] == 1)))
