"""Translation validation of the interpreter itself (not of the properties):
run the repository's own unit tests inside mirsym from the `--profile test` MIR, in concrete mode."""
import sys, os, re, time
sys.path.insert(0, os.path.dirname(os.path.dirname(os.path.abspath(__file__))))
from lib import build
from mirsym.interp import Machine, Interp
from mirsym.core import Explorer, RustPanic, Unsupported
from mirsym.models_env import Env


def run_unit_tests(verbose=False):
    repo = build.copy_repo()
    m = Machine([build.mir_dump(repo, 'test')], repo)
    tests = [n for n in m.functions if re.search(r'(^|::)(ut|tests|test)::test_\w+$', n)]
    res = {}
    for t in sorted(tests):
        fn = m.functions[t]
        def h(ctx, fn=fn):
            it = Interp(m, ctx)
            it.env = Env(it)
            it.call_mir(fn, [])
        ex = Explorer(h)
        ex.stop_on_violation = True
        st = 'pass'
        try:
            ctx = ex.run_path(())
        except RustPanic as e:
            st = 'PANIC ' + e.msg[:200]
        except Exception as e:
            st = 'ERROR %s: %s' % (type(e).__name__, str(e)[:300])
        if ex.inconclusive:
            st = 'INCONCLUSIVE ' + ex.inconclusive[0][:300]
        if ex.work:
            st += ' (forked?!)'
        res[t] = st
        if verbose and st != 'pass':
            print(t, '->', st)
    return res


if __name__ == '__main__':
    t0 = time.time()
    r = run_unit_tests(verbose=True)
    ok = sum(1 for v in r.values() if v == 'pass')
    print('%d/%d unit tests pass inside mirsym (%.1fs)' % (ok, len(r), time.time() - t0))
