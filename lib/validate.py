"""Translation validation of the interpreter itself (not of the properties):
run the repository's own unit tests inside mirsym from the `--profile test` MIR, in concrete mode."""
import sys, os, re, time
sys.path.insert(0, os.path.dirname(os.path.dirname(os.path.abspath(__file__))))
from lib import build
from mirsym.interp import Machine, Interp
from mirsym.core import Explorer, RustPanic, Unsupported
from mirsym.models_env import Env


def run_unit_tests(verbose=False):
    repo = build.copy_repo()
    m = Machine([build.mir_dump(repo, 'test')], repo)
    tests = [n for n in m.functions if re.search(r'(^|::)(ut|tests|test)::test_\w+$', n)]
    res = {}
    for t in sorted(tests):
        fn = m.functions[t]
        def h(ctx, fn=fn):
            it = Interp(m, ctx)
            it.env = Env(it)
            it.call_mir(fn, [])
        ex = Explorer(h)
        ex.stop_on_violation = True
        st = 'pass'
        try:
            ctx = ex.run_path(())
        except RustPanic as e:
            st = 'PANIC ' + e.msg[:200]
        except Exception as e:
            st = 'ERROR %s: %s' % (type(e).__name__, str(e)[:300])
        if ex.inconclusive:
            st = 'INCONCLUSIVE ' + ex.inconclusive[0][:300]
        if ex.work:
            st += ' (forked?!)'
        res[t] = st
        if verbose and st != 'pass':
            print(t, '->', st)
    return res


if __name__ == '__main__':
    t0 = time.time()
    r = run_unit_tests(verbose=True)
    ok = sum(1 for v in r.values() if v == 'pass')
    print('%d/%d unit tests pass inside mirsym (%.1fs)' % (ok, len(r), time.time() - t0))


# ----------------------------------------------------------------------------- fixtures: native vs spec vs mirsym (concrete)

def _load_tree(env, root, prefix=b'/w'):
    for dp, dn, fn in os.walk(root):
        rel = os.path.relpath(dp, root)
        d = prefix if rel == '.' else prefix + b'/' + rel.encode()
        env.add_dir(d)
        for f in fn:
            env.add_file(d + b'/' + f.encode(), open(os.path.join(dp, f), 'rb').read())


class RealEnvSpec:
    """spec environment backed by a real directory (concrete validation only)"""
    def __init__(self, workdir, srcfile):
        self.workdir = workdir
        self.srcfile = srcfile
        self.temps = {}

    def include(self, ctx, arg):
        p = os.path.join(self.workdir, bytes(arg).decode())
        try:
            return tuple(open(p, 'rb').read())
        except OSError:
            return None

    def run(self, ctx, cmd):
        import subprocess
        e = dict(os.environ)
        e['TXTPP_FILE'] = self.srcfile
        r = subprocess.run(['sh', '-c', bytes(cmd).decode()], cwd=self.workdir, env=e, stdout=subprocess.PIPE, stderr=subprocess.PIPE)
        if r.returncode != 0:
            return None
        return tuple(r.stdout.decode('utf8', 'replace').encode())

    def is_txtpp_name(self, ctx, arg):
        from spec.names import is_txtpp_name
        return is_txtpp_name(ctx, tuple(arg))

    def write_temp(self, ctx, arg, content):
        self.temps[bytes(arg)] = bytes(content)


def run_fixtures(verbose=False):
    import shutil, subprocess, tempfile
    from props.common import ConcreteCtx
    from spec import pp as specpp
    repo = build.copy_repo()
    cli = build.build_native(repo)['txtpp']
    m = build.machine()
    pre = m.free['preprocess']
    ex_root = os.path.join(repo, 'tests', 'examples')
    results = []
    tmp = tempfile.mkdtemp(prefix='fx-', dir=build.scratch_dir())
    for dp, dn, fn in sorted(os.walk(ex_root)):
        for f in sorted(fn):
            if not (f.endswith('.txtpp') or '.txtpp.' in f):
                continue
            if 'windows' in dp:
                continue
            top = dp
            # fixture root = first level under examples that holds this file's project
            rel = os.path.relpath(dp, ex_root).split(os.sep)
            work = os.path.join(tmp, 'w')
            shutil.rmtree(work, ignore_errors=True)
            shutil.copytree(dp, work)
            src = os.path.join(work, f)
            nat = subprocess.run([cli, '-q', f], cwd=work, stdout=subprocess.PIPE, stderr=subprocess.PIPE)
            nat_ok = nat.returncode == 0
            outname = _out_name(f)
            nat_out = open(os.path.join(work, outname), 'rb').read() if nat_ok and os.path.exists(os.path.join(work, outname)) else None
            content = open(src, 'rb').read()
            # ---- spec
            cc = ConcreteCtx()
            senv = RealEnvSpec(work, f)
            try:
                sres = specpp.process(cc, tuple(content), senv, True)
                spec_ok, spec_out = sres.ok, bytes(sres.output)
            except Exception as ex_:
                spec_ok, spec_out = None, repr(ex_).encode()
            # ---- mirsym (concrete), from a tree where dependencies are already built natively
            def h(ctx):
                from mirsym.values import StructV, VecV, RefV, EnumV, str_of
                it = Interp(m, ctx)
                env = Env(it, cwd=b'/w')
                it.env = env
                _load_tree(env, work)
                env.add_file(b'/bin/sh', b'')

                def proc(it_, rec):
                    import subprocess as sp
                    ee = dict(os.environ)
                    for k, v in rec['env']:
                        ee[bytes(k.b).decode()] = bytes(v.b).decode()
                    cwd = bytes(rec['cwd'].b).decode() if rec['cwd'] is not None else '.'
                    if cwd == '/w' or cwd.startswith('/w/'):
                        cwd = work + cwd[2:]
                    rr = sp.run(['sh'] + [bytes(a.b).decode() for a in rec['args']], cwd=os.path.join(work, cwd), env=ee,
                                stdout=sp.PIPE, stderr=sp.PIPE)
                    return (rr.returncode, rr.stdout, rr.stderr)
                env.proc_handler = proc
                shell = StructV('Shell', (str_of('/bin/sh'), VecV((str_of('-c'),))))
                fpath = StructV('AbsPath', (str_of('/w'), str_of('/w/' + f)))
                modes = m.src.enums['Mode']
                r_ = it.call_mir(pre, [RefV(it.alloc(shell)), RefV(it.alloc(fpath)), EnumV('Mode', 'Build', modes.index('Build'), ()), False, True])
                ctx.notes['ok'] = (r_.idx == 0)
                o = env.read_file(b'/w/' + outname.encode())
                ctx.notes['out'] = bytes(o) if o is not None else None
            exq = Explorer(h)
            ctx = exq.run_path(())
            mir_ok = ctx.notes.get('ok')
            mir_out = ctx.notes.get('out')
            rec = {'file': os.path.relpath(src, tmp), 'dir': os.path.relpath(dp, ex_root), 'native_ok': nat_ok,
                   'spec_ok': spec_ok, 'mirsym_ok': mir_ok,
                   'spec_matches_native': (spec_ok == nat_ok) and (not nat_ok or spec_out == nat_out),
                   'mirsym_matches_native': (mir_ok == nat_ok) and (not nat_ok or mir_out == nat_out),
                   'inconclusive': list(exq.inconclusive)}
            results.append(rec)
            if verbose and not (rec['spec_matches_native'] and rec['mirsym_matches_native']):
                print(rec)
                if nat_ok:
                    print('  native:', nat_out, '\n  spec:  ', spec_out, '\n  mirsym:', mir_out)
    return results


def _out_name(f):
    if f.endswith('.txtpp'):
        return f[:-len('.txtpp')]
    i = f.rindex('.txtpp.')
    return f[:i] + f[i + len('.txtpp'):]
