"""Engine E1: Kani harnesses over the compiled code (leaf units)."""
import os
import re
import shutil
import subprocess
import sys
import time
from concurrent.futures import ThreadPoolExecutor

from . import build


def _crate():
    repo = build.copy_repo()
    dst = os.path.join(build.scratch_dir(), 'kani')
    if not os.path.exists(dst):
        shutil.copytree(os.path.join(build.VERIF, 'kani'), dst, ignore=shutil.ignore_patterns('target'))
        p = os.path.join(dst, 'Cargo.toml')
        txt = open(p).read().replace('@REPO@', repo)
        open(p, 'w').write(txt)
        shutil.copy(os.path.join(repo, 'Cargo.lock'), os.path.join(dst, 'Cargo.lock'))
    return dst


def run_harness(name, timeout_s=600, mem_gb=12, extra=()):
    crate = _crate()
    env = dict(os.environ)
    env['CARGO_NET_OFFLINE'] = 'true'
    tdir = os.path.join(build.CACHE, 'target-kani', name)
    os.makedirs(tdir, exist_ok=True)
    cmd = 'ulimit -v %d; exec timeout %d cargo kani -Z stubbing --harness %s --target-dir %s %s' % (
        mem_gb * 1024 * 1024, timeout_s, name, tdir, ' '.join(extra))
    t0 = time.time()
    # the harness's target directory is shared by all runs: exclusive use, and sources newer than any artefact in it (see build.py)
    with build.target_lock('target-kani-' + name):
        build._touch_sources(build.copy_repo())
        build._touch_sources(crate)
        r = subprocess.run(['bash', '-c', cmd], cwd=crate, env=env, stdout=subprocess.PIPE, stderr=subprocess.STDOUT, text=True)
    out = r.stdout
    wall = time.time() - t0
    status = 'inconclusive'
    if 'VERIFICATION:- SUCCESSFUL' in out:
        status = 'success'
    elif 'VERIFICATION:- FAILED' in out and 'Status: ERROR' not in out and r.returncode != 124:
        status = 'failed'
    m = re.search(r'Verification Time: ([\d.]+)s', out)
    checks = re.search(r'\*\* (\d+) of (\d+) failed', out)
    failed = re.findall(r'Check \d+: (\S+)\n\s+- Status: FAILURE\n\s+- Description: "([^"]*)"', out)
    return {'harness': name, 'status': status, 'wall_s': round(wall, 1), 'verification_time_s': float(m.group(1)) if m else None,
            'checks': int(checks.group(2)) if checks else None, 'failed_checks': failed[:5], 'rc': r.returncode,
            'tail': out[-1500:] if status != 'success' else ''}


def prune(max_age_s=1800):
    """artefacts of the harness crate / txtpp built from earlier scratch paths"""
    root = os.path.join(build.CACHE, 'target-kani')
    now = time.time()
    for dp, dn, fn in os.walk(root):
        for f in fn:
            if 'txtpp' in f:
                p = os.path.join(dp, f)
                try:
                    if now - os.path.getmtime(p) > max_age_s:
                        os.remove(p)
                except OSError:
                    pass


def run_many(names, timeout_s=600, workers=8):
    _crate()
    prune()
    with ThreadPoolExecutor(max_workers=workers) as ex:
        return list(ex.map(lambda n: run_harness(n, timeout_s), names))


if __name__ == '__main__':
    for r in run_many(sys.argv[1:], timeout_s=900):
        print({k: v for k, v in r.items() if k != 'tail'})
        if r['tail']:
            print(r['tail'])


def extra(harnesses, timeout_s, what):
    """run Kani harnesses for a property check -> dict for ./check (inconclusive / violations / evidence)"""
    res = run_many(harnesses, timeout_s=timeout_s, workers=min(8, len(harnesses)))
    out = {'inconclusive': [], 'violations': [], 'evidence': {
        'engine': 'Kani 0.68 / CBMC 6.11 (cadical) on the compiled code, real std except the listed kernel stub',
        'what': what, 'stubs': ['str::find -> naive_find (equivalence decided by harness stub_find_equiv on 7 bytes)'],
        'harnesses': [{k: v for k, v in r.items() if k != 'tail'} for r in res]}}
    for r in res:
        if r['status'] == 'failed':
            out['violations'].append({'msg': 'Kani harness %s failed: %s' % (r['harness'], r['failed_checks'][:2]),
                                      'data': {'op': 'kani', 'harness': r['harness'], 'failed_checks': r['failed_checks'], 'tail': r['tail'][-800:]}})
        elif r['status'] != 'success':
            if r['rc'] == 124:
                # a timeout of this auxiliary engine is recorded, not turned into a verdict: the property is decided by the MIR
                # engine; the harness simply did not finish on this machine (never reported as success: see evidence)
                out['evidence'].setdefault('not_finished', []).append(r['harness'])
            else:
                out['inconclusive'].append('Kani harness %s inconclusive (out of memory / tool error, rc=%s)' % (r['harness'], r['rc']))
    return out
