use modelcheck::*;
fn main() {
    let inputs: Vec<String> = std::env::args().skip(1).collect();
    let fns: Vec<(&str, fn(&str, &str) -> String)> = vec![
        ("path_extension", path_extension),
        ("path_file_name", path_file_name),
        ("path_file_stem", path_file_stem),
        ("path_parent", path_parent),
        ("path_join", path_join),
        ("path_set_extension", path_set_extension),
        ("path_with_extension", path_with_extension),
        ("path_strip_prefix", path_strip_prefix),
        ("path_eq", path_eq),
        ("path_is_absolute", path_is_absolute),
        ("path_starts_with", path_starts_with),
        ("path_ends_with", path_ends_with),
        ("path_with_file_name", path_with_file_name),
        ("pathbuf_pop", pathbuf_pop),
        ("path_components", path_components),
        ("path_push", path_push),
        ("str_find", str_find),
        ("str_rfind", str_rfind),
        ("str_find_ws", str_find_ws),
        ("str_find_nonws", str_find_nonws),
        ("split_once_space", split_once_space),
        ("split_once_ws", split_once_ws),
        ("rsplit_once_dot", rsplit_once_dot),
        ("split_by", split_by),
        ("rsplit_dot", rsplit_dot),
        ("splitn3", splitn3),
        ("rsplitn2_dot", rsplitn2_dot),
        ("split_terminator_nl", split_terminator_nl),
        ("split_inclusive_nl", split_inclusive_nl),
        ("split_ws", split_ws),
        ("lines", lines),
        ("trim", trim),
        ("trim_start", trim_start),
        ("trim_end", trim_end),
        ("trim_matches_ws", trim_matches_ws),
        ("trim_start_matches", trim_start_matches),
        ("trim_end_matches", trim_end_matches),
        ("trim_end_matches_ws", trim_end_matches_ws),
        ("strip_prefix", strip_prefix),
        ("strip_suffix", strip_suffix),
        ("starts_with", starts_with),
        ("ends_with", ends_with),
        ("ends_with_nl", ends_with_nl),
        ("contains", contains),
        ("replace", replace),
        ("chars_count", chars_count),
        ("char_indices", char_indices),
        ("repeat3", repeat3),
        ("boundaries", boundaries),
        ("matches_count", matches_count),
        ("parse_usize", parse_usize),
        ("eq_ignore_case", eq_ignore_case),
        ("pad", pad),
        ("bytes_ws_prefix", bytes_ws_prefix),
        ("lossy", lossy),
        ("rev_words", rev_words),
        ("enumerate_skip", enumerate_skip),
        ("sort_dedup", sort_dedup),
        ("btree", btree),
        ("hashmap_entry", hashmap_entry),
        ("deque", deque),
        ("fs_basic", fs_basic),
        ("fs_lines", fs_lines),
        ("fs_read_exact", fs_read_exact),
        ("fs_bufwriter", fs_bufwriter),
        ("fs_dirs", fs_dirs),
        ("fs_invalid_utf8", fs_invalid_utf8),
    ];
    // inputs come in pairs a, b (hex encoded)
    let unhex = |s: &str| -> String {
        let b: Vec<u8> = (0..s.len() / 2).map(|i| u8::from_str_radix(&s[2 * i..2 * i + 2], 16).unwrap()).collect();
        String::from_utf8(b).unwrap()
    };
    for (name, f) in fns.iter() {
        for pair in inputs.chunks(2) {
            let mut a = unhex(&pair[0]);
            let b = unhex(&pair[1]);
            if name.starts_with("fs_") {
                let d = std::env::temp_dir().join(format!("modelcheck-{}-{}", std::process::id(), name));
                let _ = std::fs::remove_dir_all(&d);
                std::fs::create_dir_all(&d).unwrap();
                a = d.to_string_lossy().to_string();
            }
            let r = std::panic::catch_unwind(|| f(&a, &b));
            let out = match r { Ok(s) => s, Err(_) => "PANIC".to_string() };
            if name.starts_with("fs_") {
                let _ = std::fs::remove_dir_all(&a);
            }
            let hex: String = out.as_bytes().iter().map(|x| format!("{:02x}", x)).collect();
            println!("{}\t{}\t{}\t{}", name, pair[0], pair[1], hex);
        }
    }
}
