//! Differential validation of mirsym's std models: every function below exercises one std API through ordinary Rust;
//! the binary prints the native results, mirsym interprets the *same functions from their MIR* with its models, and
//! `lib/modelcheck.py` compares line by line.  Results are built without `Debug` formatting (not modelled).
use std::path::{Path, PathBuf};

fn opt_usize(x: Option<usize>) -> String {
    match x {
        Some(i) => i.to_string(),
        None => "None".to_string(),
    }
}
fn opt_str(x: Option<&str>) -> String {
    match x {
        Some(s) => format!("Some({s})"),
        None => "None".to_string(),
    }
}
fn join_parts<'a>(it: impl Iterator<Item = &'a str>) -> String {
    let v: Vec<&str> = it.collect();
    format!("{}[{}]", v.len(), v.join("|"))
}
fn os(x: Option<&std::ffi::OsStr>) -> String {
    match x {
        Some(s) => format!("Some({})", s.to_string_lossy()),
        None => "None".to_string(),
    }
}

// ---------------------------------------------------------------- paths
pub fn path_extension(a: &str, _b: &str) -> String { os(Path::new(a).extension()) }
pub fn path_file_name(a: &str, _b: &str) -> String { os(Path::new(a).file_name()) }
pub fn path_file_stem(a: &str, _b: &str) -> String { os(Path::new(a).file_stem()) }
pub fn path_parent(a: &str, _b: &str) -> String {
    match Path::new(a).parent() { Some(p) => format!("Some({})", p.display()), None => "None".to_string() }
}
pub fn path_join(a: &str, b: &str) -> String { Path::new(a).join(b).display().to_string() }
pub fn path_set_extension(a: &str, b: &str) -> String {
    let mut p = PathBuf::from(a);
    let r = p.set_extension(b);
    format!("{r}:{}", p.display())
}
pub fn path_with_extension(a: &str, b: &str) -> String { Path::new(a).with_extension(b).display().to_string() }
pub fn path_strip_prefix(a: &str, b: &str) -> String {
    match Path::new(a).strip_prefix(b) { Ok(p) => format!("Ok({})", p.display()), Err(_) => "Err".to_string() }
}
pub fn path_eq(a: &str, b: &str) -> String { (Path::new(a) == Path::new(b)).to_string() }
pub fn path_is_absolute(a: &str, _b: &str) -> String { Path::new(a).is_absolute().to_string() }
pub fn path_starts_with(a: &str, b: &str) -> String { Path::new(a).starts_with(b).to_string() }
pub fn path_ends_with(a: &str, b: &str) -> String { Path::new(a).ends_with(b).to_string() }
pub fn path_with_file_name(a: &str, b: &str) -> String { Path::new(a).with_file_name(b).display().to_string() }
pub fn pathbuf_pop(a: &str, _b: &str) -> String {
    let mut p = PathBuf::from(a);
    let r = p.pop();
    format!("{r}:{}", p.display())
}
pub fn path_components(a: &str, _b: &str) -> String {
    let mut out = String::new();
    for c in Path::new(a).components() {
        out.push_str(&c.as_os_str().to_string_lossy());
        out.push('|');
    }
    out
}
pub fn path_push(a: &str, b: &str) -> String {
    let mut p = PathBuf::from(a);
    p.push(b);
    p.display().to_string()
}

// ---------------------------------------------------------------- str
pub fn str_find(a: &str, b: &str) -> String { opt_usize(a.find(b)) }
pub fn str_rfind(a: &str, b: &str) -> String { opt_usize(a.rfind(b)) }
pub fn str_find_ws(a: &str, _b: &str) -> String { opt_usize(a.find(char::is_whitespace)) }
pub fn str_find_nonws(a: &str, _b: &str) -> String { opt_usize(a.find(|c: char| !c.is_whitespace())) }
pub fn split_once_space(a: &str, _b: &str) -> String {
    match a.split_once(' ') { Some((x, y)) => format!("Some({x}|{y})"), None => "None".to_string() }
}
pub fn split_once_ws(a: &str, _b: &str) -> String {
    match a.split_once(char::is_whitespace) { Some((x, y)) => format!("Some({x}|{y})"), None => "None".to_string() }
}
pub fn rsplit_once_dot(a: &str, _b: &str) -> String {
    match a.rsplit_once('.') { Some((x, y)) => format!("Some({x}|{y})"), None => "None".to_string() }
}
pub fn split_by(a: &str, b: &str) -> String { join_parts(a.split(b)) }
pub fn rsplit_dot(a: &str, _b: &str) -> String { join_parts(a.rsplit('.')) }
pub fn splitn3(a: &str, b: &str) -> String { join_parts(a.splitn(3, b)) }
pub fn rsplitn2_dot(a: &str, _b: &str) -> String { join_parts(a.rsplitn(2, '.')) }
pub fn split_terminator_nl(a: &str, _b: &str) -> String { join_parts(a.split_terminator('\n')) }
pub fn split_inclusive_nl(a: &str, _b: &str) -> String { join_parts(a.split_inclusive('\n')) }
pub fn split_ws(a: &str, _b: &str) -> String { join_parts(a.split_whitespace()) }
pub fn lines(a: &str, _b: &str) -> String { join_parts(a.lines()) }
pub fn trim(a: &str, _b: &str) -> String { format!("[{}]", a.trim()) }
pub fn trim_start(a: &str, _b: &str) -> String { format!("[{}]", a.trim_start()) }
pub fn trim_end(a: &str, _b: &str) -> String { format!("[{}]", a.trim_end()) }
pub fn trim_matches_ws(a: &str, _b: &str) -> String { format!("[{}]", a.trim_matches(char::is_whitespace)) }
pub fn trim_start_matches(a: &str, b: &str) -> String { format!("[{}]", a.trim_start_matches(b)) }
pub fn trim_end_matches(a: &str, b: &str) -> String { format!("[{}]", a.trim_end_matches(b)) }
pub fn trim_end_matches_ws(a: &str, _b: &str) -> String { format!("[{}]", a.trim_end_matches(char::is_whitespace)) }
pub fn strip_prefix(a: &str, b: &str) -> String { opt_str(a.strip_prefix(b)) }
pub fn strip_suffix(a: &str, b: &str) -> String { opt_str(a.strip_suffix(b)) }
pub fn starts_with(a: &str, b: &str) -> String { a.starts_with(b).to_string() }
pub fn ends_with(a: &str, b: &str) -> String { a.ends_with(b).to_string() }
pub fn ends_with_nl(a: &str, _b: &str) -> String { a.ends_with('\n').to_string() }
pub fn contains(a: &str, b: &str) -> String { a.contains(b).to_string() }
pub fn replace(a: &str, b: &str) -> String { a.replace(b, "_") }
pub fn chars_count(a: &str, _b: &str) -> String { a.chars().count().to_string() }
pub fn char_indices(a: &str, _b: &str) -> String {
    let mut out = String::new();
    for (i, c) in a.char_indices() {
        out.push_str(&i.to_string());
        out.push(':');
        out.push(c);
        out.push(',');
    }
    out
}
pub fn repeat3(a: &str, _b: &str) -> String { a.repeat(3) }
pub fn boundaries(a: &str, _b: &str) -> String {
    let mut out = String::new();
    for i in 0..=a.len() {
        out.push(if a.is_char_boundary(i) { '1' } else { '0' });
    }
    out
}
pub fn matches_count(a: &str, b: &str) -> String { a.matches(b).count().to_string() }
pub fn parse_usize(a: &str, _b: &str) -> String {
    match a.parse::<usize>() { Ok(n) => n.to_string(), Err(_) => "Err".to_string() }
}
pub fn eq_ignore_case(a: &str, b: &str) -> String { a.eq_ignore_ascii_case(b).to_string() }
pub fn pad(a: &str, b: &str) -> String { format!("{:>6}|{:<6}|{}", a, b, a.len()) }
pub fn bytes_ws_prefix(a: &str, _b: &str) -> String {
    let n = a.len().min(2);
    a.as_bytes()[..n].iter().all(u8::is_ascii_whitespace).to_string()
}
pub fn lossy(a: &str, _b: &str) -> String { String::from_utf8_lossy(a.as_bytes()).to_string() }
pub fn rev_words(a: &str, _b: &str) -> String {
    let v: Vec<&str> = a.split(' ').rev().collect();
    v.join(" ")
}
pub fn enumerate_skip(a: &str, _b: &str) -> String {
    let mut out = String::new();
    for (i, w) in a.split(' ').enumerate().skip(1) {
        out.push_str(&format!("{i}={w};"));
    }
    out
}
pub fn sort_dedup(a: &str, _b: &str) -> String {
    let mut v: Vec<&str> = a.split(' ').collect();
    v.sort();
    v.dedup();
    v.join(" ")
}
pub fn btree(a: &str, _b: &str) -> String {
    let mut m = std::collections::BTreeMap::new();
    for (i, w) in a.split(' ').enumerate() {
        m.insert(w.to_string(), i);
    }
    let mut out = String::new();
    for (k, v) in m.iter() {
        out.push_str(&format!("{k}={v};"));
    }
    out
}
pub fn hashmap_entry(a: &str, _b: &str) -> String {
    let mut m = std::collections::HashMap::new();
    for w in a.split(' ') {
        *m.entry(w.to_string()).or_insert(0usize) += 1;
    }
    let mut v: Vec<String> = m.iter().map(|(k, c)| format!("{k}:{c}")).collect();
    v.sort();
    v.join(",")
}
pub fn deque(a: &str, _b: &str) -> String {
    let mut q = std::collections::VecDeque::new();
    for w in a.split(' ') {
        q.push_back(w);
    }
    let mut out = String::new();
    while let Some(w) = q.pop_front() {
        out.push_str(w);
        out.push('<');
    }
    out
}

// ---------------------------------------------------------------- file system (a = empty scratch directory)
use std::fs;
use std::io::{BufRead, BufReader, BufWriter, Read, Write};

fn kind(e: &std::io::Error) -> String {
    match e.kind() {
        std::io::ErrorKind::NotFound => "NotFound".to_string(),
        std::io::ErrorKind::InvalidData => "InvalidData".to_string(),
        std::io::ErrorKind::UnexpectedEof => "UnexpectedEof".to_string(),
        std::io::ErrorKind::IsADirectory => "IsADirectory".to_string(),
        std::io::ErrorKind::AlreadyExists => "AlreadyExists".to_string(),
        _ => "Other".to_string(),
    }
}
fn res_unit(r: std::io::Result<()>) -> String {
    match r { Ok(()) => "ok".to_string(), Err(e) => kind(&e) }
}
pub fn fs_basic(a: &str, b: &str) -> String {
    let d = Path::new(a);
    let f = d.join("f.txt");
    let mut out = String::new();
    out.push_str(&format!("{}{}{};", f.exists(), f.is_file(), f.is_dir()));
    out.push_str(&res_unit(fs::write(&f, b)));
    out.push_str(&format!(";{}{}{};", f.exists(), f.is_file(), f.is_dir()));
    match fs::read_to_string(&f) { Ok(s) => out.push_str(&format!("[{s}]")), Err(e) => out.push_str(&kind(&e)) }
    out.push_str(&format!(";{}", fs::metadata(&f).map(|m| m.len()).unwrap_or(999)));
    out.push_str(&format!(";{}", res_unit(fs::remove_file(&f))));
    out.push_str(&format!(";{}", res_unit(fs::remove_file(&f))));
    match fs::read_to_string(&f) { Ok(s) => out.push_str(&format!("[{s}]")), Err(e) => out.push_str(&kind(&e)) }
    out.push_str(&format!(";{}", d.is_dir()));
    out.push_str(&format!(";{}", match fs::read_to_string(d) { Ok(_) => "ok".to_string(), Err(e) => kind(&e) }));
    out.push_str(&format!(";{}", match fs::File::create(d) { Ok(_) => "ok".to_string(), Err(e) => kind(&e) }));
    out.push_str(&format!(";{}", match fs::File::create(d.join("nodir").join("x")) { Ok(_) => "ok".to_string(), Err(e) => kind(&e) }));
    out
}
pub fn fs_lines(a: &str, b: &str) -> String {
    let f = Path::new(a).join("l.txt");
    fs::write(&f, b).unwrap();
    let mut out = String::new();
    for l in BufReader::new(fs::File::open(&f).unwrap()).lines() {
        match l { Ok(s) => out.push_str(&format!("[{s}]")), Err(e) => out.push_str(&kind(&e)) }
    }
    let mut buf = vec![];
    let n = BufReader::new(fs::File::open(&f).unwrap()).read_until(b'\n', &mut buf).unwrap();
    out.push_str(&format!(";{n}:{}", String::from_utf8_lossy(&buf)));
    let mut s = String::new();
    let mut r = BufReader::new(fs::File::open(&f).unwrap());
    let n1 = r.read_line(&mut s).unwrap_or(777);
    let n2 = r.read_line(&mut s).unwrap_or(777);
    out.push_str(&format!(";{n1},{n2}:{s}"));
    out
}
pub fn fs_read_exact(a: &str, b: &str) -> String {
    let f = Path::new(a).join("r.bin");
    fs::write(&f, b).unwrap();
    let mut r = BufReader::new(fs::File::open(&f).unwrap());
    let mut out = String::new();
    let mut b2 = vec![0u8; 2];
    out.push_str(&match r.read_exact(&mut b2) { Ok(()) => format!("ok{}", String::from_utf8_lossy(&b2)), Err(e) => kind(&e) });
    let mut b3 = vec![0u8; 3];
    out.push_str(&match r.read_exact(&mut b3) { Ok(()) => format!(";ok{}", String::from_utf8_lossy(&b3)), Err(e) => format!(";{}", kind(&e)) });
    out.push_str(&format!(";{}", r.buffer().len()));
    out
}
pub fn fs_bufwriter(a: &str, b: &str) -> String {
    let f = Path::new(a).join("w.txt");
    let mut out = String::new();
    {
        let mut w = BufWriter::new(fs::File::create(&f).unwrap());
        w.write_all(b.as_bytes()).unwrap();
        out.push_str(&format!("{}", fs::metadata(&f).unwrap().len()));
        w.write_all(b"!").unwrap();
        w.flush().unwrap();
        out.push_str(&format!(";{}", fs::metadata(&f).unwrap().len()));
        w.write_all(b"tail").unwrap();
    }
    out.push_str(&format!(";{}", fs::read_to_string(&f).unwrap()));
    let g = fs::File::create(&f).unwrap();
    drop(g);
    out.push_str(&format!(";{}", fs::metadata(&f).unwrap().len()));
    out
}
pub fn fs_dirs(a: &str, b: &str) -> String {
    let d = Path::new(a);
    fs::create_dir_all(d.join("s1/s2")).unwrap();
    fs::write(d.join("s1/x.txt"), b).unwrap();
    fs::write(d.join("top.txtpp"), "t").unwrap();
    let mut names: Vec<String> = fs::read_dir(d).unwrap().map(|e| {
        let e = e.unwrap();
        let p = e.path();
        format!("{}:{}{}", p.strip_prefix(d).unwrap().display(), p.is_file(), p.is_dir())
    }).collect();
    names.sort();
    let mut out = names.join(",");
    let c = d.join("s1/./s2/../x.txt").canonicalize();
    out.push_str(&match c { Ok(p) => format!(";{}", p.strip_prefix(d.canonicalize().unwrap()).unwrap().display()), Err(e) => format!(";{}", kind(&e)) });
    out.push_str(&match d.join("missing").canonicalize() { Ok(_) => ";ok".to_string(), Err(e) => format!(";{}", kind(&e)) });
    out.push_str(&format!(";{}", match fs::read_dir(d.join("top.txtpp")) { Ok(_) => "ok".to_string(), Err(e) => kind(&e) }));
    out.push_str(&format!(";{}", res_unit(fs::rename(d.join("s1/x.txt"), d.join("y.txt")))));
    out.push_str(&format!(";{}{}", d.join("s1/x.txt").exists(), d.join("y.txt").exists()));
    out
}
pub fn fs_invalid_utf8(a: &str, _b: &str) -> String {
    let f = Path::new(a).join("bad.txt");
    fs::write(&f, [b'o', b'k', b'\n', 0xe2, b'\n', b'x']).unwrap();
    let mut out = String::new();
    out.push_str(&match fs::read_to_string(&f) { Ok(_) => "ok".to_string(), Err(e) => kind(&e) });
    for l in BufReader::new(fs::File::open(&f).unwrap()).lines() {
        match l { Ok(s) => out.push_str(&format!("[{s}]")), Err(e) => out.push_str(&kind(&e)) }
    }
    out.push_str(&format!(";{}", fs::read(&f).unwrap().len()));
    let mut v = vec![];
    fs::File::open(&f).unwrap().read_to_end(&mut v).unwrap();
    out.push_str(&format!(";{}", v.len()));
    out
}
