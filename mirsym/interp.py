"""MIR interpreter over symbolic byte strings (everything else concrete per path)."""
import os
import re
from .parser import (parse_program, Function, Const, Place, Operand, MirParseError, split_top, match_forward)
from .values import *
from .core import (Ctx, PathEnd, BoundExceeded, Unsupported, RustPanic, is_sym, t_eq, t_not, t_and, t_or, t_in)

INT_BITS = {'u8': 8, 'u16': 16, 'u32': 32, 'u64': 64, 'u128': 128, 'usize': 64,
            'i8': 8, 'i16': 16, 'i32': 32, 'i64': 64, 'i128': 128, 'isize': 64}

BUILTIN_ENUMS = {
    'Option': ['None', 'Some'],
    'Result': ['Ok', 'Err'],
    'ControlFlow': ['Continue', 'Break'],
    'Cow': ['Borrowed', 'Owned'],
    'TryRecvError': ['Empty', 'Disconnected'],
    'Entry': ['Occupied', 'Vacant'],
    'Level': [None, 'Error', 'Warn', 'Info', 'Debug', 'Trace'],
    'LevelFilter': ['Off', 'Error', 'Warn', 'Info', 'Debug', 'Trace'],
    'Color': ['Black', 'Blue', 'Green', 'Red', 'Cyan', 'Magenta', 'Yellow', 'White'],
    'ColorChoice': ['Always', 'AlwaysAnsi', 'Auto', 'Never'],
    'Ordering': ['Less', 'Equal', 'Greater'],
    'SeekFrom': ['Start', 'End', 'Current'],
    'ErrorKind': ['NotFound', 'PermissionDenied', 'ConnectionRefused', 'ConnectionReset', 'HostUnreachable', 'NetworkUnreachable',
                  'ConnectionAborted', 'NotConnected', 'AddrInUse', 'AddrNotAvailable', 'NetworkDown', 'BrokenPipe', 'AlreadyExists',
                  'WouldBlock', 'NotADirectory', 'IsADirectory', 'DirectoryNotEmpty', 'ReadOnlyFilesystem', 'FilesystemLoop',
                  'StaleNetworkFileHandle', 'InvalidInput', 'InvalidData', 'TimedOut', 'WriteZero', 'StorageFull', 'NotSeekable',
                  'QuotaExceeded', 'FileTooLarge', 'ResourceBusy', 'ExecutableFileBusy', 'Deadlock', 'CrossesDevices', 'TooManyLinks',
                  'InvalidFilename', 'ArgumentListTooLong', 'Interrupted', 'Unsupported', 'UnexpectedEof', 'OutOfMemory', 'InProgress',
                  'Other', 'Uncategorized'],
}
ORDERING_VALUES = {'Less': -1, 'Equal': 0, 'Greater': 1}


def strip_generics(s):
    """remove `::<...>` turbofish groups and `<...>` generic arg lists that follow an identifier"""
    out = []
    i = 0
    n = len(s)
    while i < n:
        c = s[i]
        if c == '<' and i > 0 and (s[i - 1].isalnum() or s[i - 1] == '_' or s[i - 1] == ':'):
            # skip balanced <...>
            depth = 0
            j = i
            while j < n:
                if s[j] == '<':
                    depth += 1
                elif s[j] == '>' and s[j - 1] != '-':
                    depth -= 1
                    if depth == 0:
                        break
                j += 1
            if out and ''.join(out).endswith('::'):
                del out[-2:]
            i = j + 1
            continue
        out.append(c)
        i += 1
    return ''.join(out)


def last_seg(s):
    s = s.strip()
    return s.split('::')[-1]


def base_type(t):
    """short base name of a type string: strips refs, lifetimes, module paths and generic args"""
    t = t.strip()
    while True:
        m = re.match(r"^(&(?:'\w+ )?(?:mut )?|\*const |\*mut |dyn )", t)
        if not m:
            break
        t = t[m.end():]
    if t.startswith('{closure@'):
        return t
    if t.startswith('['):
        return 'slice'
    if t.startswith('('):
        return 'tuple'
    t = strip_generics(t)
    if t.startswith('impl '):
        return 'impl'
    return last_seg(t)


def norm_ty(t):
    """normalise a type string for textual comparison: drop module paths and lifetimes"""
    t = re.sub(r"'\w+ ?", '', t)
    t = re.sub(r'(?:\w+::)+(\w+)', r'\1', t)
    return t.replace(' ', '')


class SourceInfo:
    """things the MIR text does not carry: enum variant order, impl headers"""

    def __init__(self, root):
        self.root = root
        self.files = {}
        self.enums = dict(BUILTIN_ENUMS)
        for dp, dn, fn in os.walk(os.path.join(root, 'src')):
            for f in fn:
                if f.endswith('.rs'):
                    p = os.path.join(dp, f)
                    rel = os.path.relpath(p, root)
                    txt = open(p, encoding='utf8').read()
                    self.files[rel] = txt.split('\n')
                    self._scan_enums(txt)

    def _scan_enums(self, txt):
        for m in re.finditer(r'\benum\s+(\w+)\s*\{', txt):
            start = m.end() - 1
            end = match_forward(txt, start)
            body = txt[start + 1:end]
            body = re.sub(r'//[^\n]*', '', body)
            body = re.sub(r'#\[[^\]]*\]', '', body)
            names = []
            for part in split_top(body):
                mm = re.match(r'\s*(\w+)', part)
                if mm:
                    names.append(mm.group(1))
            self.enums[m.group(1)] = names

    def impl_info(self, file, line, col):
        """-> (type_base, trait_base|None, trait_args_norm|None, impl_generics)"""
        lines = self.files.get(file)
        if lines is None:
            return None
        text = lines[line - 1][col - 1:]
        if text.startswith('impl'):
            hdr = text
            k = line
            while '{' not in hdr and k < len(lines):
                hdr += ' ' + lines[k].strip()
                k += 1
            hdr = hdr[:hdr.index('{')] if '{' in hdr else hdr
            hdr = hdr.split(' where ')[0].strip()
            m = re.match(r'^impl\s*(<.*?>)?\s*(.*)$', hdr)
            generics = []
            rest = m.group(2)
            if m.group(1):
                # generics may contain nested <>; recompute balanced
                depth = 0
                for idx, ch in enumerate(hdr[4:].lstrip()):
                    pass
                g = self._balanced_generics(hdr[4:].lstrip())
                if g is not None:
                    generics = [x.strip().split(':')[0].strip() for x in split_top(g[1:-1]) if not x.strip().startswith("'")]
                    rest = hdr[4:].lstrip()[len(g):].strip()
            if ' for ' in rest:
                tr, ty = rest.split(' for ', 1)
                tr = tr.strip()
                targs = None
                if '<' in tr:
                    targs = norm_ty(tr[tr.index('<') + 1:tr.rindex('>')])
                return (base_type(ty), base_type(tr), targs, generics)
            return (base_type(rest), None, None, generics)
        # derive
        m = re.match(r'^(\w+)', text)
        trait = m.group(1) if m else None
        ty = None
        for k in range(line - 1, min(line + 12, len(lines))):
            mm = re.match(r'\s*(?:pub(?:\([^)]*\))?\s+)?(?:struct|enum)\s+(\w+)', lines[k])
            if mm:
                ty = mm.group(1)
                break
        return (ty, trait, None, [])

    @staticmethod
    def _balanced_generics(s):
        if not s.startswith('<'):
            return None
        depth = 0
        for i, ch in enumerate(s):
            if ch == '<':
                depth += 1
            elif ch == '>' and s[i - 1] != '-':
                depth -= 1
                if depth == 0:
                    return s[:i + 1]
        return None


class Frame:
    __slots__ = ('fn', 'locals', 'no', 'visits')

    def __init__(self, fn, no):
        self.fn = fn
        self.locals = {}
        self.no = no
        self.visits = {}


class Machine:
    """loaded program + resolution tables (shared by all paths)"""

    def __init__(self, mir_texts, src_root):
        self.src = SourceInfo(src_root)
        self.functions = {}
        self.consts = {}
        for txt in mir_texts:
            p = parse_program(txt)
            self.functions.update(p.functions)
            self.consts.update(p.consts)
        self._fix_closure_aggregates()
        self.defs = {}          # (type, trait, method) -> [(fn, trait_args, generics)]
        self.free = {}          # name -> fn
        self.closures = {}      # closure type text -> fn
        self.by_suffix = {}
        self._index()
        self.resolve_cache = {}
        from . import models_std, models_more, models_env, models_extra
        self.models = {}
        self.models.update(models_std.MODELS)
        self.models.update(models_env.MODELS)
        self.overrides = {}     # harness-installed overrides: key -> pyfunc (checked first)

    def _fix_closure_aggregates(self):
        """rustc's MIR pretty-printer zips a closure aggregate's operands with the *variable names* it
        captures; with edition-2021 disjoint field captures (`self.a`, `self.b` -> one name `self`) the
        trailing operands are not printed.  They are always temporaries assigned in the same block and
        used nowhere else, so they are recovered here; anything else is a parse error (inconclusive)."""
        need = {}
        for name, fn in self.functions.items():
            if re.search(r'\{closure#\d+\}$', name):
                t = fn.locals.get(1, '')
                m = re.search(r'\{closure@[^}]*\}', t)
                if not m:
                    continue
                mx = -1
                for b in fn.blocks.values():
                    for txt in [st.text for st in b.stmts] + [b.term.text]:
                        for mm in re.finditer(r'\(\(?\*?_1\)?\.(\d+): ', txt):
                            mx = max(mx, int(mm.group(1)))
                need[m.group(0)] = mx + 1
        for name, fn in self.functions.items():
            alltext = None
            for bid, b in fn.blocks.items():
                for si, st in enumerate(b.stmts):
                    if st.kind == 'assign' and st.rv.kind == 'aggregate' and st.rv.a == 'closure':
                        n = need.get(st.rv.extra)
                        if n is None or n <= len(st.rv.b):
                            continue
                        if alltext is None:
                            alltext = []
                            for bb in fn.blocks.values():
                                alltext.extend(x.text for x in bb.stmts)
                                alltext.append(bb.term.text)
                        printed = {o.place.local for _, o in st.rv.b if o.place is not None}
                        cands = []
                        for prev in b.stmts[:si]:
                            if prev.kind != 'assign' or prev.place.proj:
                                continue
                            k = prev.place.local
                            if k in printed:
                                continue
                            uses = sum(len(re.findall(r'(?<![\w])_%d(?![\d])' % k, t)) for t in alltext)
                            if uses == 1:
                                cands.append(k)
                        missing = n - len(st.rv.b)
                        if len(cands) < missing:
                            raise MirParseError("cannot recover unprinted closure captures in %s: %s" % (name, st.text))
                        for k in cands[-missing:]:
                            st.rv.b.append(('<recovered>', Operand('move', place=Place(k, ()))))

    def _index(self):
        for name, fn in self.functions.items():
            # closures: `path::{closure#k}`; first arg type tells the closure type
            if re.search(r'\{closure#\d+\}$', name):
                t = fn.locals.get(1, '')
                m = re.search(r'\{closure@[^}]*\}', t)
                if m:
                    self.closures[m.group(0)] = fn
                continue
            m = re.search(r'<impl at ([^:]+):(\d+):(\d+): \d+:\d+>::(\w+)$', name)
            if m:
                info = self.src.impl_info(m.group(1), int(m.group(2)), int(m.group(3)))
                method = m.group(4)
                if info is None or info[0] is None:
                    raise MirParseError("cannot resolve impl header for " + name)
                ty, trait, targs, gens = info
                if trait == 'Derivative':
                    trait = {'eq': 'PartialEq', 'hash': 'Hash', 'ne': 'PartialEq'}.get(method, trait)
                self.defs.setdefault((ty, trait, method), []).append((fn, targs, gens))
                fn.impl_info = (ty, trait, method)
            else:
                self.free[last_seg(strip_generics(name))] = fn
                fn.impl_info = (None, None, last_seg(name))

    def find_fn(self, suffix):
        """harness helper: unique function whose name ends with suffix"""
        c = [f for n, f in self.functions.items() if n.endswith(suffix)]
        if len(c) != 1:
            raise KeyError("%d functions match %r: %s" % (len(c), suffix, [f.name for f in c][:5]))
        return c[0]

    def find_method(self, ty, method, trait=None):
        c = self.defs.get((ty, trait, method))
        if not c or len(c) != 1:
            raise KeyError("method %s::%s (%s): %s" % (ty, method, trait, c))
        return c[0][0]

    # ---- callee resolution
    def parse_callee(self, text):
        """-> (type_base|None, trait_base|None, trait_args|None, method, self_ty_text|None)"""
        t = text.strip()
        if t.startswith('<'):
            # <T as Trait>::method...
            g = SourceInfo._balanced_generics(t)
            inner = g[1:-1]
            rest = t[len(g):]
            method = last_seg(strip_generics(rest))
            depth = 0
            idx = None
            i = 0
            while i < len(inner):
                ch = inner[i]
                if ch in '<([{':
                    depth += 1
                elif ch in ')]}' or (ch == '>' and inner[i - 1] != '-'):
                    depth -= 1
                elif depth == 0 and inner.startswith(' as ', i):
                    idx = i
                i += 1
            if idx is None:
                return (base_type(inner), None, None, method, inner)
            ty = inner[:idx]
            tr = inner[idx + 4:]
            targs = None
            trs = tr
            if '<' in tr and not tr.startswith('{'):
                targs = norm_ty(tr[tr.index('<') + 1:tr.rindex('>')])
            return (base_type(ty), base_type(trs), targs, method, ty)
        m = re.search(r'<impl ([^>]*(?:<.*>)?[^>]*)>::(\w+)', t)
        if m and '<impl at ' not in t:
            return (base_type(m.group(1)), None, None, m.group(2), m.group(1))
        s = strip_generics(t)
        segs = s.split('::')
        method = segs[-1]
        if len(segs) >= 2 and (segs[-2][:1].isupper() or segs[-2] in ('str', 'char', 'slice')):
            return (segs[-2], None, None, method, segs[-2])
        return (None, None, None, method, None)

    def lookup_def(self, ty, trait, targs, method):
        c = self.defs.get((ty, trait, method))
        if c:
            good = []
            for fn, dargs, gens in c:
                if targs is None or dargs is None or self._targs_match(dargs, gens, targs):
                    good.append(fn)
            if len(good) == 1:
                return good[0]
            if len(good) > 1:
                raise Unsupported("ambiguous impl for %s %s %s" % (ty, trait, method))
            return None
        if trait is not None:
            # blanket impls: `impl<P> Trait for P`
            cands = []
            for (dty, dtr, dm), lst in self.defs.items():
                if dtr == trait and dm == method:
                    for fn, dargs, gens in lst:
                        if dty in gens and (targs is None or dargs is None or self._targs_match(dargs, gens, targs)):
                            cands.append(fn)
            if len(cands) == 1:
                return cands[0]
        return None

    @staticmethod
    def _targs_match(dargs, gens, targs):
        if dargs == targs:
            return True
        pat = re.escape(dargs)
        for g in gens:
            pat = re.sub(r'(?<![A-Za-z0-9_])' + re.escape(g) + r'(?![A-Za-z0-9_])', '.+', pat)
        return re.fullmatch(pat, targs) is not None


def trunc(v, ty):
    bits = INT_BITS.get(ty)
    if bits is None:
        return v
    if ty[0] == 'u':
        return v & ((1 << bits) - 1)
    v &= (1 << bits) - 1
    if v >= 1 << (bits - 1):
        v -= 1 << bits
    return v


def in_range(v, ty):
    bits = INT_BITS[ty]
    if ty[0] == 'u':
        return 0 <= v < (1 << bits)
    return -(1 << (bits - 1)) <= v < (1 << (bits - 1))


_REF_FORWARDING = frozenset(['PartialEq', 'PartialOrd', 'Ord', 'Hash', 'Display', 'Debug'])


class Interp:
    """one path's execution state"""

    def __init__(self, machine, ctx):
        self.m = machine
        self.ctx = ctx
        self.frames = []
        self.heap = {}
        self.next_cell = 0
        self.env = None              # environment model state (installed by harness)
        self.max_loop_visits = 400
        self.depth = 0
        self.hashorder = 'insertion'  # or 'permute'
        self.overrides = dict(machine.overrides)

    # ---- memory
    def alloc(self, v):
        c = self.next_cell
        self.next_cell += 1
        self.heap[c] = v
        return Addr(('H', c))

    def root_get(self, root):
        k = root[0]
        if k == 'L':
            fr = self.frames[root[1]]
            try:
                return fr.locals[root[2]]
            except KeyError:
                raise Unsupported("read of uninitialised local _%d in %s" % (root[2], fr.fn.name))
        if k == 'H':
            return self.heap[root[1]]
        raise Unsupported("root " + str(root))

    def root_set(self, root, v):
        k = root[0]
        if k == 'L':
            self.frames[root[1]].locals[root[2]] = v
        elif k == 'H':
            self.heap[root[1]] = v
        else:
            raise Unsupported("root " + str(root))

    def load(self, addr):
        v = self.root_get(addr.root)
        for p in addr.proj:
            v = self.project(v, p)
        return v

    def project(self, v, p):
        if p[0] == 'f':
            if isinstance(v, (StructV, TupleV, EnumV, ClosureV)):
                try:
                    return v.f[p[1]]
                except IndexError:
                    raise Unsupported("field %d of %r" % (p[1], v))
            raise Unsupported("field projection on %r" % (v,))
        if p[0] == 'i':
            if isinstance(v, VecV):
                if not 0 <= p[1] < len(v.e):
                    raise RustPanic("index out of bounds: the len is %d but the index is %d" % (len(v.e), p[1]))
                return v.e[p[1]]
            if isinstance(v, StrV):
                if not 0 <= p[1] < len(v.b):
                    raise RustPanic("index out of bounds: the len is %d but the index is %d" % (len(v.b), p[1]))
                return v.b[p[1]]
            if isinstance(v, MapV):
                return v.items[p[1]]
            raise Unsupported("index projection on %r" % (v,))
        raise Unsupported("projection " + str(p))

    def store(self, addr, val):
        if not addr.proj:
            self.root_set(addr.root, val)
            return
        root = self.root_get(addr.root)
        self.root_set(addr.root, self._update(root, addr.proj, val))

    def _update(self, v, proj, val):
        if not proj:
            return val
        p = proj[0]
        if p[0] == 'f':
            k = p[1]
            if isinstance(v, StructV):
                f = list(v.f)
                f[k] = self._update(f[k], proj[1:], val)
                return StructV(v.name, tuple(f))
            if isinstance(v, TupleV):
                f = list(v.f)
                f[k] = self._update(f[k], proj[1:], val)
                return TupleV(tuple(f))
            if isinstance(v, EnumV):
                f = list(v.f)
                f[k] = self._update(f[k], proj[1:], val)
                return EnumV(v.ename, v.vname, v.idx, tuple(f))
            if isinstance(v, ClosureV):
                f = list(v.f)
                f[k] = self._update(f[k], proj[1:], val)
                return ClosureV(v.name, tuple(f))
            raise Unsupported("store field into %r" % (v,))
        if p[0] == 'i':
            if isinstance(v, VecV):
                e = list(v.e)
                e[p[1]] = self._update(e[p[1]], proj[1:], val)
                return VecV(tuple(e))
            if isinstance(v, StrV):
                b = list(v.b)
                b[p[1]] = val
                return StrV(tuple(b))
            if isinstance(v, MapV):
                e = list(v.items)
                e[p[1]] = self._update(e[p[1]], proj[1:], val)
                return MapV(tuple(e), v.is_set)
        raise Unsupported("store projection %s into %r" % (p, v))

    # ---- places
    def place_addr(self, fr, place):
        addr = Addr(('L', fr.no, place.local))
        for p in place.proj:
            k = p[0]
            if k == 'deref':
                v = self.load(addr)
                if isinstance(v, RefV):
                    addr = v.addr
                elif isinstance(v, SliceV):
                    # deref of a slice ref: address of the backing vec (range kept by caller)
                    addr = v.addr
                else:
                    raise Unsupported("deref of non-reference %r (%s in %s)" % (v, place, fr.fn.name))
            elif k == 'field':
                if p[3]:
                    continue  # transparent wrapper (Box/Unique/NonNull/ManuallyDrop/MaybeUninit)
                addr = addr.field(p[1])
            elif k == 'downcast':
                continue
            elif k == 'index':
                i = fr.locals[p[1]]
                if not isinstance(i, int):
                    raise Unsupported("symbolic index")
                addr = addr.index(i)
            elif k == 'constindex':
                if p[2]:
                    v = self.load(addr)
                    n = len(v.e) if isinstance(v, VecV) else len(v.b)
                    addr = addr.index(n - p[1])
                else:
                    addr = addr.index(p[1])
            else:
                raise Unsupported("projection kind " + k)
        return addr

    def read_place(self, fr, place):
        if not place.proj:
            try:
                return fr.locals[place.local]
            except KeyError:
                ty = fr.fn.locals.get(place.local, '')
                if ty == '()' or ty.startswith('{closure@') or ty.startswith('fn('):
                    return UNIT
                raise Unsupported("read of uninitialised local _%d: %s in %s" % (place.local, ty, fr.fn.name))
        # deref of a by-value str/slice "reference"
        return self.load_place(fr, place)

    def load_place(self, fr, place):
        # like load(place_addr) but tolerates derefs of by-value &str (StrV) / VecV
        addr = Addr(('L', fr.no, place.local))
        v = None
        have_v = False
        for p in place.proj:
            k = p[0]
            cur = v if have_v else self.load(addr)
            if k == 'deref':
                if isinstance(cur, RefV):
                    addr = cur.addr
                    have_v = False
                elif isinstance(cur, (StrV, VecV, SliceV, StructV, OpaqueV)):
                    # by-value fat reference: deref is identity
                    v = cur
                    have_v = True
                else:
                    raise Unsupported("deref of %r in %s" % (cur, fr.fn.name))
            elif k == 'field':
                if p[3]:
                    continue
                if have_v:
                    v = self.project(v, ('f', p[1]))
                else:
                    addr = addr.field(p[1])
            elif k == 'downcast':
                continue
            elif k in ('index', 'constindex'):
                if k == 'index':
                    i = fr.locals[p[1]]
                else:
                    i = p[1]
                    if p[2]:
                        n = len(cur.e) if isinstance(cur, VecV) else len(cur.b)
                        i = n - i
                if isinstance(cur, SliceV):
                    addr = cur.addr.index(cur.start + i)
                    have_v = False
                    if not 0 <= i < cur.end - cur.start:
                        raise RustPanic("index out of bounds")
                elif have_v:
                    v = self.project(v, ('i', i))
                else:
                    addr = addr.index(i)
        return v if have_v else self.load(addr)

    # ---- operands / rvalues
    def const_value(self, fr, c):
        k = c.kind
        if k in ('bool', 'int'):
            return c.value
        if k == 'unit':
            return UNIT
        if k in ('str', 'bytes'):
            return StrV(tuple(c.value))
        if k == 'char':
            return c.value
        if k == 'zst':
            t = c.value
            if t.startswith('{closure@'):
                return ClosureV(t, ())
            return FnV(t)
        if k == 'promoted':
            name = fr.fn.name + '::promoted[%d]' % c.value
            pf = self.m.consts.get(name)
            if pf is None:
                i = name.find('<impl at ')
                key = name[i:] if i >= 0 else '::' + name.split('::', 1)[-1] if '::' in name else name
                cands = [v for k, v in self.m.consts.items() if k.endswith(key)]
                if len(cands) != 1:
                    raise Unsupported("promoted " + name)
                pf = cands[0]
                self.m.consts[name] = pf
            return self.eval_const_fn(pf)
        if k == 'float':
            return OpaqueV('float', c.value)
        if k == 'named':
            t = c.value
            ms = re.match(r'^\{(alloc\d+): &', t)
            if ms and ('__static_alloc__' + ms.group(1)) in self.m.consts:
                # reference to a `static` item with a run-time initialiser: one process-wide cell, initialised once
                sname = self.m.consts['__static_alloc__' + ms.group(1)]
                hkey = ('static', sname)
                sf = self.m.consts.get(sname) or self.m.consts.get(last_seg(sname))
                if hkey not in self.heap and isinstance(sf, Function):
                    self.heap[hkey] = self.call_mir(sf, [], rescue=True)
                if hkey in self.heap:
                    return RefV(Addr(('H', hkey)))
                # a static of another crate (no body in this dump): handled as before, by the models of its accessors
            key = last_seg(strip_generics(t))
            cv = self.m.consts.get(key)
            if cv is None:
                for nm, val in self.m.consts.items():
                    if nm.endswith('::' + key) or nm == key:
                        cv = val
                        break
            if isinstance(cv, Const):
                return self.const_value(fr, cv)
            if isinstance(cv, Function):
                return self.eval_const_fn(cv)
            if t == 'log::STATIC_MAX_LEVEL':
                return EnumV('LevelFilter', 'Off', 0, ())
            if key == 'None' and 'Option' in t:
                return NONE
            # a constant item of another crate (SCREAMING_CASE) described by a model: its value
            if re.match(r'^[A-Z][A-Z0-9_]*$', key) and key in self.m.models:
                return self.m.models[key](self, [], t)
            # unit struct or fn item
            if re.match(r'^[A-Z]\w*$', t):
                return StructV(t, ())
            return FnV(t)
        raise Unsupported("const kind " + k)

    def eval_const_fn(self, fn):
        key = ('constfn', fn.name)
        v = self.heap.get(key)
        if v is None:
            v = self.call_mir(fn, [], rescue=True)
            self.heap[key] = v
        return v

    def rescue(self, v, fr, memo):
        """promoted constants return references to their own locals: move those locals to heap cells"""
        if isinstance(v, RefV):
            r = v.addr.root
            if r[0] == 'L' and r[1] == fr.no:
                if r[2] not in memo:
                    cell = self.alloc(UNIT)
                    memo[r[2]] = cell
                    self.heap[cell.root[1]] = self.rescue(fr.locals[r[2]], fr, memo)
                return RefV(Addr(memo[r[2]].root, v.addr.proj))
            return v
        if isinstance(v, StructV):
            return StructV(v.name, tuple(self.rescue(x, fr, memo) for x in v.f))
        if isinstance(v, TupleV):
            return TupleV(tuple(self.rescue(x, fr, memo) for x in v.f))
        if isinstance(v, EnumV):
            return EnumV(v.ename, v.vname, v.idx, tuple(self.rescue(x, fr, memo) for x in v.f))
        if isinstance(v, VecV):
            return VecV(tuple(self.rescue(x, fr, memo) for x in v.e))
        if isinstance(v, SliceV):
            r = v.addr.root
            if r[0] == 'L' and r[1] == fr.no:
                nr = self.rescue(RefV(v.addr), fr, memo)
                return SliceV(nr.addr, v.start, v.end)
        return v

    def operand(self, fr, op):
        if op.kind == 'const':
            return self.const_value(fr, op.const)
        return self.read_place(fr, op.place)

    def rvalue(self, fr, rv):
        k = rv.kind
        if k == 'use':
            return self.operand(fr, rv.a)
        if k in ('ref', 'addr'):
            place = rv.a
            # reborrow of a by-value fat ref: &(*_x) where _x holds StrV etc.
            if place.proj and place.proj[-1][0] == 'deref':
                inner = Place(place.local, place.proj[:-1])
                v = self.read_place(fr, inner)
                if isinstance(v, (RefV, StrV, SliceV, VecV, OpaqueV)):
                    return v
            if place.proj:
                v = self._try_byvalue_ref(fr, place)
                if v is not None:
                    return v
            return RefV(self.place_addr(fr, place))
        if k == 'discriminant':
            v = self.read_place(fr, rv.a)
            if isinstance(v, EnumV):
                if v.ename == 'Ordering':
                    return ORDERING_VALUES[v.vname]
                return v.idx
            raise Unsupported("discriminant of %r" % (v,))
        if k == 'binop':
            return self.binop(fr, rv.a, self.operand(fr, rv.b), self.operand(fr, rv.c), rv)
        if k == 'unop':
            v = self.operand(fr, rv.b)
            if rv.a == 'Not':
                if isinstance(v, bool):
                    return not v
                if isinstance(v, BoolT):
                    return BoolT(t_not(v.t))
                raise Unsupported("Not on %r" % (v,))
            if rv.a == 'Neg':
                return -v
            if rv.a == 'PtrMetadata':
                if isinstance(v, RefV):
                    v = self.deref_all(v)
                if isinstance(v, StrV):
                    return len(v.b)
                if isinstance(v, VecV):
                    return len(v.e)
                if isinstance(v, SliceV):
                    return v.end - v.start
                raise Unsupported("PtrMetadata of %r" % (v,))
            raise Unsupported("unop " + rv.a)
        if k == 'cast':
            v = self.operand(fr, rv.a)
            kind = rv.c
            if kind == 'IntToInt':
                if isinstance(v, bool):
                    v = int(v)
                if isinstance(v, int):
                    return trunc(v, rv.b)
                return v
            if kind.startswith('PointerCoercion') or kind in ('Transmute', 'PtrToPtr'):
                return v
            raise Unsupported("cast " + kind)
        if k == 'aggregate':
            return self.aggregate(fr, rv)
        if k == 'len':
            v = self.read_place(fr, rv.a)
            return len(v.e) if isinstance(v, VecV) else len(v.b)
        if k == 'copyforderef':
            return self.read_place(fr, rv.a)
        if k == 'repeat':
            v = self.operand(fr, rv.a)
            n = int(re.match(r'(?:const )?(\d+)', rv.b.strip()).group(1))
            return VecV((v,) * n)
        raise Unsupported("rvalue " + k)

    def _try_byvalue_ref(self, fr, place):
        """&((*_x).k) etc. where a deref step hits a by-value fat reference: not addressable -> None
        (callers then use place_addr, which raises if impossible)"""
        return None

    def binop(self, fr, op, a, b, rv=None):
        if isinstance(a, bool) and isinstance(b, bool):
            a, b = int(a), int(b)
            if op in ('Eq', 'Ne', 'Lt', 'Le', 'Gt', 'Ge'):
                return {'Eq': a == b, 'Ne': a != b, 'Lt': a < b, 'Le': a <= b, 'Gt': a > b, 'Ge': a >= b}[op]
            if op in ('BitAnd', 'BitOr', 'BitXor'):
                return bool({'BitAnd': a & b, 'BitOr': a | b, 'BitXor': a ^ b}[op])
        if isinstance(a, int) and isinstance(b, int):
            if op == 'Eq':
                return a == b
            if op == 'Ne':
                return a != b
            if op == 'Lt':
                return a < b
            if op == 'Le':
                return a <= b
            if op == 'Gt':
                return a > b
            if op == 'Ge':
                return a >= b
            ty = self._operand_int_ty(fr, rv)
            if op in ('AddWithOverflow', 'SubWithOverflow', 'MulWithOverflow'):
                r = {'A': a + b, 'S': a - b, 'M': a * b}[op[0]]
                ovf = not in_range(r, ty)
                return TupleV((trunc(r, ty), ovf))
            if op in ('Add', 'AddUnchecked'):
                return trunc(a + b, ty)
            if op in ('Sub', 'SubUnchecked'):
                return trunc(a - b, ty)
            if op in ('Mul', 'MulUnchecked'):
                return trunc(a * b, ty)
            if op == 'BitAnd':
                return a & b
            if op == 'BitOr':
                return a | b
            if op == 'BitXor':
                return a ^ b
            if op == 'Div':
                if b == 0:
                    raise RustPanic("attempt to divide by zero")
                return int(a / b) if (a < 0) != (b < 0) else a // b
            if op == 'Rem':
                if b == 0:
                    raise RustPanic("attempt to calculate the remainder with a divisor of zero")
                return a - b * (int(a / b) if (a < 0) != (b < 0) else a // b)
            if op == 'Shl':
                return trunc(a << b, ty)
            if op == 'Shr':
                return a >> b
            raise Unsupported("int binop " + op)
        # symbolic byte comparisons
        if op in ('Eq', 'Ne') and (is_sym(a) or is_sym(b)):
            t = t_eq(a, b)
            if op == 'Ne':
                t = t_not(t)
            return BoolT(t) if not isinstance(t, bool) else t
        if isinstance(a, EnumV) and isinstance(b, EnumV) and op in ('Eq', 'Ne'):
            r = (a.idx == b.idx)
            return r if op == 'Eq' else not r
        raise Unsupported("binop %s on %r, %r" % (op, a, b))

    def _operand_int_ty(self, fr, rv):
        for o in (rv.b, rv.c):
            if o.kind == 'const' and o.const.kind == 'int':
                return o.const.ty
            if o.kind != 'const':
                ty = self._place_ty(fr, o.place)
                if ty in INT_BITS:
                    return ty
        return 'usize'

    def _place_ty(self, fr, place):
        ty = fr.fn.locals.get(place.local)
        for p in place.proj:
            if p[0] == 'deref':
                if ty is None:
                    return None
                ty = re.sub(r"^(&(?:'\w+ )?(?:mut )?|\*const |\*mut )", '', ty.strip())
            elif p[0] == 'field':
                ty = p[2]
            elif p[0] == 'downcast':
                pass
            else:
                ty = None
        return ty.strip() if ty else ty

    def aggregate(self, fr, rv):
        kind = rv.a
        if kind == 'tuple':
            return TupleV(tuple(self.operand(fr, o) for o in rv.b))
        if kind == 'array':
            return VecV(tuple(self.operand(fr, o) for o in rv.b))
        if kind == 'closure':
            return ClosureV(rv.extra, tuple(self.operand(fr, o) for _, o in rv.b))
        if kind == 'struct':
            head = strip_generics(rv.extra)
            segs = head.split('::')
            name = segs[-1]
            fields = tuple(self.operand(fr, o) for _, o in rv.b)
            # enum struct-variant?
            if len(segs) >= 2 and segs[-2] in self.m.src.enums and name in self.m.src.enums[segs[-2]]:
                return EnumV(segs[-2], name, self.m.src.enums[segs[-2]].index(name), fields)
            return StructV(name, fields)
        if kind == 'variant':
            head = strip_generics(rv.extra)
            segs = head.split('::')
            name = segs[-1]
            fields = tuple(self.operand(fr, o) for o in rv.b)
            enums = self.m.src.enums
            if len(segs) >= 2 and segs[-2] in enums:
                vs = enums[segs[-2]]
                if name not in vs:
                    raise Unsupported("variant %s of %s" % (name, segs[-2]))
                return EnumV(segs[-2], name, vs.index(name), fields)
            cands = [e for e, vs in enums.items() if name in vs]
            if len(segs) == 1 and len(cands) == 1:
                return EnumV(cands[0], name, enums[cands[0]].index(name), fields)
            if len(cands) > 1 and len(segs) == 1:
                # several enums have a variant of this name: the type of the assigned place decides
                dfr, dplace = getattr(self, '_dest', (None, None))
                ty = self._place_ty(dfr, dplace) if dfr is not None else None
                bt = base_type(ty) if ty else None
                if bt in cands:
                    return EnumV(bt, name, enums[bt].index(name), fields)
                raise Unsupported("ambiguous bare variant %s (destination type %s)" % (name, ty))
            # tuple struct / unit struct
            return StructV(name, fields)
        raise Unsupported("aggregate " + kind)

    # ---- execution
    def call_mir(self, fn, args, rescue=False):
        ctx = self.ctx
        if len(self.frames) > 200:
            raise BoundExceeded("call depth")
        if fn.nargs == -1 and 'broken' in fn.debug:
            raise Unsupported("MIR of %s could not be parsed: %s" % (fn.name, fn.debug['broken']))
        fr = Frame(fn, len(self.frames))
        for i, a in enumerate(args):
            fr.locals[i + 1] = a
        if len(args) != fn.nargs:
            raise Unsupported("arity mismatch calling %s: %d vs %d" % (fn.name, len(args), fn.nargs))
        self.frames.append(fr)
        ctx.stats.functions_run.add(fn.name)
        try:
            bb = 0
            blocks = fn.blocks
            while True:
                ctx.tick()
                n = fr.visits.get(bb, 0) + 1
                fr.visits[bb] = n
                if n > self.max_loop_visits:
                    raise BoundExceeded("loop bound %d at bb%d of %s" % (self.max_loop_visits, bb, fn.name))
                block = blocks[bb]
                for st in block.stmts:
                    if st.kind == 'assign':
                        if st.rv.kind == 'aggregate':
                            self._dest = (fr, st.place)
                        v = self.rvalue(fr, st.rv)
                        if st.place.proj:
                            self.store(self.place_addr(fr, st.place), v)
                        else:
                            fr.locals[st.place.local] = v
                t = block.term
                k = t.kind
                if k == 'goto':
                    bb = t.target
                elif k == 'switch':
                    v = self.operand(fr, t.discr)
                    if isinstance(v, BoolT):
                        v = int(ctx.branch(v.t, 'switch@%s' % fn.name.split('::')[-1]))
                    elif isinstance(v, bool):
                        v = int(v)
                    elif not isinstance(v, int):
                        if is_sym(v):
                            # switch on a symbolic byte: fork over listed values
                            conds = [t_eq(v, val) for val, _ in t.targets]
                            conds.append(t_and(*[t_not(c) for c in conds]))
                            d = ctx.choose_feasible(conds, 'switchbyte')
                            v = t.targets[d][0] if d < len(t.targets) else None
                        else:
                            raise Unsupported("switch on %r" % (v,))
                    nxt = t.otherwise
                    for val, tb in t.targets:
                        if v is not None and val == v:
                            nxt = tb
                            break
                    if nxt is None:
                        raise Unsupported("switch without target")
                    bb = nxt
                elif k == 'call':
                    argv = [self.operand(fr, a) for a in t.args]
                    if t.func_operand is not None:
                        callee = self.operand(fr, t.func_operand)
                        r = self.call_value(callee, argv)
                    else:
                        r = self.call_named(t.func, argv, fr)
                    if t.target is None:
                        raise RustPanic("diverging call returned: " + t.func)
                    if t.dest is not None:
                        if t.dest.proj:
                            self.store(self.place_addr(fr, t.dest), r)
                        else:
                            fr.locals[t.dest.local] = r
                    bb = t.target
                elif k == 'return':
                    rv = fr.locals.get(0, UNIT)
                    if rescue:
                        rv = self.rescue(rv, fr, {})
                    return rv
                elif k == 'drop':
                    self.drop_place(fr, t.place)
                    bb = t.target
                elif k == 'assert':
                    v = self.operand(fr, t.cond)
                    if isinstance(v, BoolT):
                        v = ctx.branch(v.t, 'assert')
                    if bool(v) != t.expected:
                        raise RustPanic("MIR assert failed: " + t.msg)
                    bb = t.target
                elif k == 'unreachable':
                    raise RustPanic("entered unreachable code (MIR unreachable in %s)" % fn.name)
                else:
                    raise Unsupported("terminator " + k)
        finally:
            self.frames.pop()

    def drop_place(self, fr, place):
        try:
            v = self.read_place(fr, place)
        except Unsupported:
            return
        self.drop_value(v)

    def drop_value(self, v):
        if isinstance(v, StructV):
            if v.name == 'Txtpp':
                fn = self.m.lookup_def('Txtpp', 'Drop', None, 'drop')
                if fn is not None:
                    a = self.alloc(v)
                    self.call_mir(fn, [RefV(a)])
                    v = self.load(a)
            for x in v.f:
                self.drop_value(x)
        elif isinstance(v, (TupleV, EnumV, ClosureV)):
            for x in v.f:
                self.drop_value(x)
        elif isinstance(v, VecV):
            for x in v.e:
                self.drop_value(x)
        elif isinstance(v, OpaqueV):
            if v.kind in ('BufWriter', 'File', 'Receiver') and self.env is not None:
                self.env.on_drop(self, v)

    # ---- calls
    def call_value(self, callee, argv):
        """call a closure / fn item value with already-untupled args"""
        if isinstance(callee, RefV):
            inner = self.load(callee.addr)
            if isinstance(inner, ClosureV):
                fn = self.m.closures.get(inner.name)
                if fn is None:
                    raise Unsupported("no body for " + inner.name)
                envty = fn.locals.get(1, '')
                env = callee if envty.startswith('&') else inner
                return self.call_mir(fn, [env] + list(argv))
            return self.call_value(inner, argv)
        if isinstance(callee, ClosureV):
            fn = self.m.closures.get(callee.name)
            if fn is None:
                raise Unsupported("no body for " + callee.name)
            envty = fn.locals.get(1, '')
            env = callee
            if envty.startswith('&'):
                env = RefV(self.alloc(callee))
            return self.call_mir(fn, [env] + list(argv))
        if isinstance(callee, FnV):
            return self.call_named(callee.name, list(argv), None)
        raise Unsupported("call of %r" % (callee,))

    def call_named(self, text, argv, fr):
        m = self.m
        ent = m.resolve_cache.get(text)
        if ent is None:
            ent = self._resolve(text)
            m.resolve_cache[text] = ent
        kind, target, info = ent
        if info in self.overrides:
            return self.overrides[info](self, argv, text)
        key2 = (info[0], info[3]) if info else None
        if key2 in self.overrides:
            return self.overrides[key2](self, argv, text)
        if kind == 'mir':
            return self.call_mir(target, argv)
        if kind == 'model':
            self.ctx.stats.models_used.add(target.__name__)
            return target(self, argv, text)
        if kind == 'dyn':
            # generic receiver: resolve on the runtime value
            return self._dynamic_call(info, argv, text)
        raise Unsupported("no definition or model for callee `%s`" % text)

    def _resolve(self, text):
        m = self.m
        info = m.parse_callee(text)
        ty, trait, targs, method, selfty = info
        if ty is not None and ty.startswith('{closure@'):
            return ('model', _call_closure_model, info)
        if ty is None:
            fn = m.free.get(method)
            if fn is not None and (method in ('preprocess', 'resolve_inputs', 'scan_dir', 'txtpp', 'print_dep_map',
                                              'get_line_ending_from_buf', 'path_string_from_base', 'create_file',
                                              'normalize_path', 'resolve_shell')
                                   or '::' not in strip_generics(text)):
                return ('mir', fn, info)
        else:
            fn = m.lookup_def(ty, trait, targs, method)
            if fn is not None:
                if selfty and selfty.lstrip().startswith('&') and trait in _REF_FORWARDING:
                    # std: `impl Trait for &A` forwards to A's impl with the references peeled off
                    both = method in ('eq', 'ne', 'partial_cmp', 'cmp', 'lt', 'le', 'gt', 'ge')

                    def fwd(it, argv, text, fn=fn, both=both):
                        args = list(argv)
                        for k in range(2 if both else 1):
                            a = args[k]
                            while isinstance(a, RefV):
                                inner = it.load(a.addr)
                                if not isinstance(inner, RefV):
                                    break
                                a = inner
                            args[k] = a
                        return it.call_mir(fn, args)
                    fwd.__name__ = 'ref_forwarding_impl'
                    return ('model', fwd, info)
                return ('mir', fn, info)
        # models: most specific key first
        keys = []
        if trait is not None:
            keys.append('<%s as %s>::%s' % (ty, trait, method))
            keys.append('%s::%s' % (trait, method))
        if ty is not None:
            keys.append('%s::%s' % (ty, method))
        keys.append(method if ty is None else None)
        for k in keys:
            if k and k in m.models:
                return ('model', m.models[k], info)
        if ty is not None and (len(ty) == 1 or ty == 'impl') and trait is not None:
            return ('dyn', None, info)
        return ('none', None, info)

    def _dynamic_call(self, info, argv, text):
        ty, trait, targs, method, selfty = info
        v = argv[0]
        while isinstance(v, RefV):
            v = self.load(v.addr)
        if isinstance(v, StructV):
            fn = self.m.lookup_def(v.name, trait, targs, method)
            if fn is not None:
                return self.call_mir(fn, argv)
        if isinstance(v, (ClosureV, FnV)) and method in ('call_once', 'call_mut', 'call'):
            return _call_closure_model(self, argv, text)
        k = '%s::%s' % (trait, method)
        if k in self.m.models:
            return self.m.models[k](self, argv, text)
        raise Unsupported("dynamic dispatch of %s on %r" % (text, v))

    # ---- helpers for models
    def deref_all(self, v):
        while isinstance(v, RefV):
            v = self.load(v.addr)
        return v

    def as_str(self, v):
        v = self.deref_all(v)
        if isinstance(v, StrV):
            return v
        if isinstance(v, EnumV) and v.ename == 'Cow':
            return self.as_str(v.f[0])
        raise Unsupported("expected string, got %r" % (v,))

    def as_seq(self, v):
        """elements of a Vec / array / slice"""
        if isinstance(v, RefV):
            v = self.load(v.addr)
            return self.as_seq(v)
        if isinstance(v, SliceV):
            base = self.load(v.addr)
            return base.e[v.start:v.end]
        if isinstance(v, VecV):
            return v.e
        raise Unsupported("expected sequence, got %r" % (v,))

    def seq_elem_refs(self, v):
        """references to the elements of a Vec/slice given by reference"""
        if isinstance(v, RefV):
            inner = self.load(v.addr)
            if isinstance(inner, VecV):
                return [RefV(v.addr.index(i)) for i in range(len(inner.e))]
            if isinstance(inner, (RefV, SliceV)):
                return self.seq_elem_refs(inner)
        if isinstance(v, SliceV):
            return [RefV(v.addr.index(i)) for i in range(v.start, v.end)]
        if isinstance(v, VecV):
            a = self.alloc(v)
            return [RefV(a.index(i)) for i in range(len(v.e))]
        raise Unsupported("expected addressable sequence, got %r" % (v,))


@dataclass(frozen=True)
class BoolT(V):
    """symbolic boolean"""
    t: object


def _call_closure_model(it, argv, text):
    callee = argv[0]
    args = argv[1] if len(argv) > 1 else UNIT
    if isinstance(args, TupleV):
        args = list(args.f)
    else:
        args = [args]
    return it.call_value(callee, args)
