"""Immutable value model for the MIR interpreter."""
from dataclasses import dataclass


class V:
    __slots__ = ()


@dataclass(frozen=True)
class StrV(V):
    """contents of str / String / OsStr / OsString / Path / PathBuf: tuple of byte terms"""
    b: tuple

    def __len__(self):
        return len(self.b)

    def __repr__(self):
        return 'StrV(%s)' % show_bytes(self.b)


def show_bytes(bs):
    out = []
    for x in bs:
        if isinstance(x, int):
            out.append(chr(x) if 32 <= x < 127 and x != 92 else '\\x%02x' % x)
        else:
            out.append('<%s>' % x[1])
    return '"' + ''.join(out) + '"'


@dataclass(frozen=True)
class TupleV(V):
    f: tuple


@dataclass(frozen=True)
class StructV(V):
    name: str
    f: tuple


@dataclass(frozen=True)
class EnumV(V):
    ename: str
    vname: str
    idx: int
    f: tuple = ()

    def __repr__(self):
        return '%s::%s%s' % (self.ename, self.vname, list(self.f) if self.f else '')


@dataclass(frozen=True)
class VecV(V):
    e: tuple


@dataclass(frozen=True)
class ClosureV(V):
    name: str
    f: tuple


@dataclass(frozen=True)
class FnV(V):
    name: str


@dataclass(frozen=True)
class Addr:
    root: tuple      # ('L', frame_no, local) | ('H', cell) | ('C', key)
    proj: tuple = ()

    def field(self, k):
        return Addr(self.root, self.proj + (('f', k),))

    def index(self, i):
        return Addr(self.root, self.proj + (('i', i),))


@dataclass(frozen=True)
class RefV(V):
    addr: Addr


@dataclass(frozen=True)
class SliceV(V):
    """&[T] / &mut [T] into a VecV stored at addr"""
    addr: Addr
    start: int
    end: int


@dataclass(frozen=True)
class MapV(V):
    """HashMap / HashSet in insertion order; set: values are ()"""
    items: tuple     # of (key, value)
    is_set: bool = False


@dataclass(frozen=True)
class OpaqueV(V):
    kind: str
    data: object = None


@dataclass(frozen=True)
class IterV(V):
    """generic iterator state: kind + payload"""
    kind: str
    data: tuple


@dataclass(frozen=True)
class CharV(V):
    """symbolic char known to be ASCII (one byte term)"""
    b: object


UNIT = TupleV(())


def some(v):
    return EnumV('Option', 'Some', 1, (v,))


NONE = EnumV('Option', 'None', 0, ())


def ok(v):
    return EnumV('Result', 'Ok', 0, (v,))


def err(v):
    return EnumV('Result', 'Err', 1, (v,))


def mkbool(b):
    return bool(b)


def str_of(b):
    if isinstance(b, str):
        b = b.encode()
    return StrV(tuple(b))
