"""Exploration context: symbolic byte terms, path condition, decision replay, solver plumbing.

Design: path-wise symbolic execution by *re-execution with a decision prefix*.  A harness is a
deterministic Python function of a Ctx.  Whenever execution depends on a symbolic condition the
harness (through the interpreter / models) calls ctx.branch / ctx.choose_feasible; the Ctx asks the
solver which alternatives are feasible under the current path condition, follows the first one and
queues the others (as decision prefixes) for later runs.  Inside a replayed prefix no solver call
is made.  Every *unsat* verdict (pruned alternative or discharged assertion) is also written to an
SMT-LIB2 script that cvc5 re-decides in batch.
"""
import itertools
import time
import z3


class PathEnd(Exception):
    """path ends without verdict (assumption violated / pruned)"""


class BoundExceeded(Exception):
    pass


class Unsupported(Exception):
    pass


class RustPanic(Exception):
    def __init__(self, msg):
        super().__init__(msg)
        self.msg = msg


class Violation(Exception):
    def __init__(self, msg, data=None):
        super().__init__(msg)
        self.msg = msg
        self.data = data or {}


# ----------------------------------------------------------------------------- terms
# byte terms:  int (0..255) | ('sym', name)
# bool terms:  True | False | ('eq', a, b) | ('in', a, frozenset_of_ints) | ('not', t) | ('and', t...) | ('or', t...)

def is_sym(x):
    return isinstance(x, tuple) and len(x) == 2 and x[0] == 'sym'


def t_eq(a, b):
    if isinstance(a, int) and isinstance(b, int):
        return a == b
    if a == b:
        return True
    if isinstance(a, int):
        a, b = b, a
    return ('eq', a, b)


def t_in(a, s):
    if isinstance(a, int):
        return a in s
    return ('in', a, frozenset(s))


def t_not(t):
    if t is True:
        return False
    if t is False:
        return True
    if isinstance(t, tuple) and t[0] == 'not':
        return t[1]
    return ('not', t)


def t_and(*ts):
    out = []
    for t in ts:
        if t is True:
            continue
        if t is False:
            return False
        if isinstance(t, tuple) and t[0] == 'and':
            out.extend(t[1:])
        else:
            out.append(t)
    if not out:
        return True
    if len(out) == 1:
        return out[0]
    return ('and',) + tuple(out)


def t_or(*ts):
    out = []
    for t in ts:
        if t is False:
            continue
        if t is True:
            return True
        if isinstance(t, tuple) and t[0] == 'or':
            out.extend(t[1:])
        else:
            out.append(t)
    if not out:
        return False
    if len(out) == 1:
        return out[0]
    return ('or',) + tuple(out)


def t_bytes_eq(xs, ys):
    """equality of two byte sequences (same length required by caller)"""
    if len(xs) != len(ys):
        return False
    return t_and(*[t_eq(a, b) for a, b in zip(xs, ys)])


def smt_term(t):
    if isinstance(t, bool):
        return 'true' if t else 'false'
    if isinstance(t, int):
        return '#x%02x' % t
    k = t[0]
    if k == 'sym':
        return t[1]
    if k == 'eq':
        return '(= %s %s)' % (smt_term(t[1]), smt_term(t[2]))
    if k == 'in':
        if not t[2]:
            return 'false'
        return '(or false %s)' % ' '.join('(= %s #x%02x)' % (smt_term(t[1]), c) for c in sorted(t[2]))
    if k == 'not':
        return '(not %s)' % smt_term(t[1])
    if k in ('and', 'or'):
        return '(%s %s)' % (k, ' '.join(smt_term(x) for x in t[1:]))
    raise ValueError(t)


class Stats:
    def __init__(self):
        self.paths = 0
        self.paths_nontrivial = 0
        self.solver_queries = 0
        self.solver_sat = 0
        self.solver_unsat = 0
        self.solver_time = 0.0
        self.asserts_discharged = 0
        self.asserts_trivial = 0
        self.steps = 0
        self.pruned = 0
        self.assumed_away = 0
        self.covers = {}
        self.panics = 0
        self.models_used = set()
        self.functions_run = set()
        self.max_decisions = 0

    def merge(self, o):
        for k in ('paths', 'paths_nontrivial', 'solver_queries', 'solver_sat', 'solver_unsat', 'asserts_discharged',
                  'asserts_trivial', 'steps', 'pruned', 'assumed_away', 'panics'):
            setattr(self, k, getattr(self, k) + getattr(o, k))
        self.solver_time += o.solver_time
        for k, v in o.covers.items():
            self.covers[k] = self.covers.get(k, 0) + v
        self.models_used |= o.models_used
        self.functions_run |= o.functions_run
        self.max_decisions = max(self.max_decisions, o.max_decisions)


class Ctx:
    """One path."""

    def __init__(self, explorer, prefix):
        self.ex = explorer
        self.prefix = prefix            # tuple of ints (decisions to replay)
        self.decisions = []             # decisions taken on this path
        self.pc = []                    # list of bool terms
        self.solver = explorer.solver
        self._z3cache = explorer.z3cache
        self.solver.push()
        self.syms = {}                  # name -> meta
        self.counter = itertools.count()
        self.steps = 0
        self.events = []                # free-form log (env models, harness)
        self.known = {}                 # sym -> int, from asserted equalities
        self.nontrivial = False
        self.notes = {}
        self.stats = explorer.stats

    # ---- symbolic inputs
    def fresh_byte(self, name, domain=None):
        """new symbolic byte; domain: iterable of allowed ints (constraint added) or None for any byte"""
        nm = '%s' % name
        if nm in self.syms:
            nm = '%s!%d' % (name, next(self.counter))
        t = ('sym', nm)
        self.syms[nm] = domain
        self.ex.declare(nm)
        if domain is not None:
            self._assert(t_in(t, frozenset(domain)))
        return t

    def fresh_bytes(self, name, n, domain=None):
        return tuple(self.fresh_byte('%s_%d' % (name, i), domain) for i in range(n))

    # ---- solver
    def _z3(self, t):
        if isinstance(t, bool):
            return z3.BoolVal(t)
        if isinstance(t, int):
            return z3.BitVecVal(t, 8)
        r = self._z3cache.get(t)
        if r is not None:
            return r
        k = t[0]
        if k == 'sym':
            r = z3.BitVec(t[1], 8)
        elif k == 'eq':
            r = self._z3(t[1]) == self._z3(t[2])
        elif k == 'in':
            x = self._z3(t[1])
            r = z3.Or([x == c for c in sorted(t[2])]) if t[2] else z3.BoolVal(False)
        elif k == 'not':
            r = z3.Not(self._z3(t[1]))
        elif k == 'and':
            r = z3.And([self._z3(x) for x in t[1:]])
        elif k == 'or':
            r = z3.Or([self._z3(x) for x in t[1:]])
        else:
            raise ValueError(t)
        self._z3cache[t] = r
        return r

    def _assert(self, t):
        if t is True:
            return
        self.pc.append(t)
        self.solver.add(self._z3(t))
        self._learn(t)

    def _learn(self, t):
        if isinstance(t, tuple):
            if t[0] == 'eq' and is_sym(t[1]) and isinstance(t[2], int):
                self.known[t[1]] = t[2]
            elif t[0] == 'and':
                for x in t[1:]:
                    self._learn(x)
            elif t[0] == 'in' and len(t[2]) == 1:
                self.known[t[1]] = next(iter(t[2]))

    def simplify(self, t):
        """cheap syntactic evaluation under known equalities"""
        if isinstance(t, (bool, int)):
            return t
        k = t[0]
        if k == 'sym':
            return self.known.get(t, t)
        if k == 'eq':
            return t_eq(self.simplify(t[1]), self.simplify(t[2]))
        if k == 'in':
            a = self.simplify(t[1])
            if isinstance(a, int):
                return a in t[2]
            dom = self.syms.get(a[1]) if is_sym(a) else None
            if dom is not None:
                inter = frozenset(dom) & t[2]
                if not inter:
                    return False
                if len(inter) == len(frozenset(dom)):
                    return True
            return ('in', a, t[2])
        if k == 'not':
            return t_not(self.simplify(t[1]))
        if k == 'and':
            return t_and(*[self.simplify(x) for x in t[1:]])
        if k == 'or':
            return t_or(*[self.simplify(x) for x in t[1:]])
        raise ValueError(t)

    def _check(self, t, purpose):
        """is pc /\\ t satisfiable?  returns True/False; unknown -> Unsupported (inconclusive)"""
        st = self.stats
        st.solver_queries += 1
        t0 = time.time()
        r = self.solver.check(self._z3(t))
        st.solver_time += time.time() - t0
        if r == z3.sat:
            st.solver_sat += 1
            return True
        if r == z3.unsat:
            st.solver_unsat += 1
            self.ex.log_unsat(self.pc, t, purpose)
            return False
        raise Unsupported("solver returned unknown (%s)" % purpose)

    def model(self):
        """concrete assignment for all symbols on this path"""
        r = self.solver.check()
        if r != z3.sat:
            raise Unsupported("model requested on infeasible path")
        m = self.solver.model()
        out = {}
        for nm in self.syms:
            v = m.eval(z3.BitVec(nm, 8), model_completion=True)
            out[nm] = v.as_long()
        return out

    def model_with(self, t):
        self.solver.push()
        self.solver.add(self._z3(t))
        try:
            return self.model()
        finally:
            self.solver.pop()

    # ---- decisions
    def _next_replayed(self):
        i = len(self.decisions)
        if i < len(self.prefix):
            return self.prefix[i]
        return None

    def choose(self, n, label=''):
        """environment nondeterminism: n alternatives, all feasible by definition"""
        if n <= 0:
            raise PathEnd()
        if n == 1:
            return 0
        d = self._next_replayed()
        if d is None:
            d = 0
            base = tuple(self.decisions)
            for k in range(n - 1, 0, -1):
                self.ex.push(base + (k,))
        self.decisions.append(d)
        self.nontrivial = True
        return d

    def choose_feasible(self, conds, label=''):
        """conds: list of bool terms, intended mutually exclusive & exhaustive under pc.
        Follows one feasible alternative (asserting it) and queues the others."""
        simp = [self.simplify(c) for c in conds]
        # fast path: exactly one syntactically true and the rest false
        alive = [i for i, c in enumerate(simp) if c is not False]
        if len(alive) == 1 and simp[alive[0]] is True:
            return alive[0]
        d = self._next_replayed()
        if d is not None:
            self.decisions.append(d)
            self._assert(simp[d])
            self.nontrivial = True
            return d
        feas = []
        for i in alive:
            if simp[i] is True or self._check(simp[i], 'branch:' + label):
                feas.append(i)
            else:
                self.stats.pruned += 1
        if not feas:
            # pc itself infeasible or conds not exhaustive
            raise PathEnd()
        base = tuple(self.decisions)
        for k in reversed(feas[1:]):
            self.ex.push(base + (k,))
        d = feas[0]
        self.decisions.append(d)
        self._assert(simp[d])
        self.nontrivial = True
        return d

    def branch(self, cond, label=''):
        """returns a Python bool; forks if both are feasible"""
        c = self.simplify(cond)
        if c is True or c is False:
            return c
        return self.choose_feasible([c, t_not(c)], label) == 0

    def assume(self, cond):
        c = self.simplify(cond)
        if c is True:
            return
        if c is False:
            self.stats.assumed_away += 1
            raise PathEnd()
        d = self._next_replayed()
        # an assume is a forced decision: record so that replay skips the solver call
        if d is not None:
            self.decisions.append(d)
            self._assert(c)
            return
        if not self._check(c, 'assume'):
            self.stats.assumed_away += 1
            raise PathEnd()
        self.decisions.append(0)
        self._assert(c)

    # ---- assertions
    def check_holds(self, cond, what, data=None):
        """property assertion: cond must hold for every assignment satisfying pc"""
        c = self.simplify(cond)
        if c is True:
            self.stats.asserts_trivial += 1
            return
        neg = t_not(c)
        if neg is not True and not self._check(neg, 'assert:' + what):
            self.stats.asserts_discharged += 1
            return
        # violated: produce model
        m = self.model_with(neg) if neg is not True else self.model()
        d = dict(data or {})
        d['model'] = m
        raise Violation(what, d)

    def cover(self, name):
        self.stats.covers[name] = self.stats.covers.get(name, 0) + 1

    def tick(self, n=1):
        self.steps += n
        if self.steps > self.ex.max_steps:
            raise BoundExceeded("step bound %d exceeded" % self.ex.max_steps)

    def concretize(self, bs, model=None):
        model = model if model is not None else self.model()
        return bytes(b if isinstance(b, int) else model[b[1]] for b in bs)


class Explorer:
    def __init__(self, harness, max_steps=2_000_000, max_paths=None, solver_timeout_ms=20000, seed=0,
                 cvc5_log=None, time_budget=None):
        self.harness = harness
        self.max_steps = max_steps
        self.max_paths = max_paths
        self.solver_timeout_ms = solver_timeout_ms
        self.stats = Stats()
        self.work = []
        self.seed = seed
        self.violations = []
        self.inconclusive = []
        self.samples = []
        self.declared = set()
        self.solver = z3.SolverFor('QF_BV')
        self.solver.set('timeout', solver_timeout_ms)
        self.z3cache = {}
        self.cvc5_log = cvc5_log        # file object or None
        self.cvc5_count = 0
        self.time_budget = time_budget
        self.t0 = time.time()
        self.stop_on_violation = True
        self.truncated = False

    def declare(self, nm):
        if nm not in self.declared:
            self.declared.add(nm)
            if self.cvc5_log is not None:
                self.cvc5_log.write('(declare-const %s (_ BitVec 8))\n' % nm)

    def log_unsat(self, pc, t, purpose):
        if self.cvc5_log is None:
            return
        self.cvc5_count += 1
        w = self.cvc5_log.write
        w('(push 1)\n')
        for p in pc:
            w('(assert %s)\n' % smt_term(p))
        w('(assert %s)\n(check-sat)\n(pop 1)\n' % smt_term(t))

    def push(self, prefix):
        self.work.append(prefix)

    def run_path(self, prefix):
        ctx = Ctx(self, prefix)
        st = self.stats
        try:
            self.harness(ctx)
            st.paths += 1
            if ctx.nontrivial:
                st.paths_nontrivial += 1
            if len(self.samples) < 6 and ctx.nontrivial and (st.paths % 7 == 1 or len(self.samples) < 2):
                try:
                    self.samples.append({'decisions': list(ctx.decisions), 'path_condition_atoms': len(ctx.pc),
                                         'notes': ctx.notes, 'model': _printable_model(ctx)})
                except Exception:
                    pass
        except PathEnd:
            pass
        except Violation as v:
            st.paths += 1
            v.data['decisions'] = list(ctx.decisions)
            v.data['notes'] = ctx.notes
            self.violations.append(v)
        except RustPanic as e:
            # a reachable panic is an error state in every harness (C18); it is reported with a model of the path
            st.paths += 1
            st.panics += 1
            try:
                mdl = ctx.model()
            except Exception:
                mdl = {}
            d = dict(ctx.notes.get('data', {}))
            d.update({'model': mdl, 'panic': e.msg, 'decisions': list(ctx.decisions), 'notes': {k: v for k, v in ctx.notes.items() if k != 'data'}})
            self.violations.append(Violation('panic: ' + e.msg, d))
        except (BoundExceeded, Unsupported) as e:
            self.inconclusive.append('%s: %s (decisions %s)' % (type(e).__name__, e, ctx.decisions[:40]))
        finally:
            self.solver.pop()
        st.steps += ctx.steps
        st.max_decisions = max(st.max_decisions, len(ctx.decisions))
        return ctx

    def explore(self, roots=((),)):
        self.work = list(roots)
        while self.work:
            if self.max_paths is not None and self.stats.paths >= self.max_paths:
                self.truncated = True
                break
            if self.time_budget is not None and time.time() - self.t0 > self.time_budget:
                self.truncated = True
                break
            prefix = self.work.pop()
            self.run_path(prefix)
            if self.violations and self.stop_on_violation:
                break
            if len(self.inconclusive) > 20:
                break
        return self

    def expand(self, target):
        """breadth-first expansion until at least `target` pending prefixes exist (for parallel split);
        returns list of pending prefixes (paths completed meanwhile are accounted in self.stats)"""
        self.work = [()]
        while self.work and len(self.work) < target:
            prefix = self.work.pop(0)
            self.run_path(prefix)
            if self.violations or len(self.inconclusive) > 20:
                break
        return list(self.work)


def _printable_model(ctx):
    m = ctx.model()
    groups = {}
    for k, v in m.items():
        base, _, idx = k.rpartition('_')
        if idx.isdigit():
            groups.setdefault(base, {})[int(idx)] = v
        else:
            groups.setdefault(k, {})[0] = v
    out = {}
    for b, d in groups.items():
        bs = bytes(d[i] for i in sorted(d))
        out[b] = bs.decode('latin1')
    return out
