"""Environment models: file system, processes, thread pool + channel (scheduler), clock, terminal.

All of them are *contract* models: they implement what the std / OS documentation promises and nothing
else, and every nondeterministic outcome (which call fails, which task completes next, what a command
prints) is a fork point or a symbolic value.  The Env object is per path (re-execution), so it is
ordinary mutable Python.
"""
import re
from .values import *
from .core import (Unsupported, RustPanic, PathEnd, Violation, is_sym, t_eq, t_not, t_and, t_or, t_in, t_bytes_eq)
from .interp import BoolT, base_type
from .models_std import (model, MODELS as _STD, truth, bytes_eq, value_eq, find_byte, rfind_byte, some, NONE, ok, err,
                         iter_next)

MODELS = {}


def emodel(*names):
    def deco(f):
        for n in names:
            MODELS[n] = f
        return f
    return deco


SLASH = 47
DOT = 46


def io_error(kind):
    return OpaqueV('io::Error', kind)


# ----------------------------------------------------------------------------- paths (unix semantics)

def split_components(it, bs):
    """-> (is_abs, [component byte tuples])  ('.' removed except leading, '..' kept)"""
    comps = []
    cur = []
    for b in bs:
        if truth(it, BoolT(t_eq(b, SLASH)) if is_sym(b) else b == SLASH, 'slash'):
            comps.append(tuple(cur))
            cur = []
        else:
            cur.append(b)
    comps.append(tuple(cur))
    is_abs = len(bs) > 0 and len(comps) > 1 and comps[0] == ()
    out = []
    first = True
    for i, c in enumerate(comps):
        if c == ():
            continue
        if len(c) == 1 and bytes_eq(it, c, (DOT,), 'dotcomp'):
            if first and not is_abs:
                out.append(c)       # leading `.` is a CurDir component
            first = False
            continue
        first = False
        out.append(c)
    return is_abs, out


def is_dotdot(it, c):
    return len(c) == 2 and bytes_eq(it, c, (DOT, DOT), 'dotdot')


def is_dot(it, c):
    return len(c) == 1 and bytes_eq(it, c, (DOT,), 'dot')


def path_eq(it, a, b):
    aa, ca = split_components(it, a)
    ab, cb = split_components(it, b)
    if aa != ab or len(ca) != len(cb):
        return False
    for x, y in zip(ca, cb):
        if len(x) != len(y) or not bytes_eq(it, x, y, 'patheq'):
            return False
    return True


from . import models_std as _ms
_ms.path_eq = path_eq


def path_join(it, base, ext):
    if len(ext) > 0 and truth(it, BoolT(t_eq(ext[0], SLASH)) if is_sym(ext[0]) else ext[0] == SLASH, 'absjoin'):
        return tuple(ext)
    if len(base) == 0:
        return tuple(ext)
    lb = base[-1]
    if truth(it, BoolT(t_eq(lb, SLASH)) if is_sym(lb) else lb == SLASH, 'trailslash'):
        return tuple(base) + tuple(ext)
    return tuple(base) + (SLASH,) + tuple(ext)


def _strip_trailing_slashes(it, bs):
    bs = tuple(bs)
    while len(bs) > 1 and truth(it, BoolT(t_eq(bs[-1], SLASH)) if is_sym(bs[-1]) else bs[-1] == SLASH, 'ts'):
        bs = bs[:-1]
    return bs


def file_name_range(it, bs):
    """-> (start, end) byte range of the final normal component, or None"""
    bs = tuple(bs)
    end = len(bs)
    # strip trailing slashes and `/.`
    while True:
        if end > 1 and truth(it, BoolT(t_eq(bs[end - 1], SLASH)) if is_sym(bs[end - 1]) else bs[end - 1] == SLASH, 'fn1'):
            end -= 1
            continue
        if end >= 2 and _is(it, bs[end - 1], DOT) and _is(it, bs[end - 2], SLASH):
            end -= 2 if end > 2 else 1
            continue
        break
    if end == 0:
        return None
    i = rfind_byte(it, bs[:end], SLASH)
    start = 0 if i is None else i + 1
    name = bs[start:end]
    if len(name) == 0:
        return None
    if is_dotdot(it, name):
        return None
    if is_dot(it, name) :
        return None
    return start, end


def _is(it, b, c):
    return truth(it, BoolT(t_eq(b, c)) if is_sym(b) else b == c, 'is')


def split_ext(it, name):
    """(stem, ext|None) per std: rsplit at last '.', a leading-dot-only name has no extension"""
    i = rfind_byte(it, name, DOT)
    if i is None or i == 0:
        return tuple(name), None
    return tuple(name[:i]), tuple(name[i + 1:])


def path_parent(it, bs):
    """-> bytes tuple or None"""
    is_abs, comps = split_components(it, bs)
    if not comps:
        return None
    comps = comps[:-1]
    body = []
    for i, c in enumerate(comps):
        if i:
            body.append(SLASH)
        body.extend(c)
    if is_abs:
        return (SLASH,) + tuple(body)
    return tuple(body)


def normalize_abs(it, bs, cwd):
    """lexical absolute normal form (no symlinks in the model): list of components"""
    is_abs, comps = split_components(it, bs)
    if not is_abs:
        _, base = split_components(it, cwd)
        comps = base + comps
    out = []
    for c in comps:
        if is_dot(it, c):
            continue
        if is_dotdot(it, c):
            if out:
                out.pop()
            continue
        out.append(c)
    return out


def comps_to_bytes(comps):
    out = []
    for c in comps:
        out.append(SLASH)
        out.extend(c)
    return tuple(out) if out else (SLASH,)


@emodel('Path::join', 'PathBuf::join')
def m_path_join(it, argv, text):
    return StrV(path_join(it, it.as_str(argv[0]).b, it.as_str(argv[1]).b))


@emodel('PathBuf::push')
def m_pathbuf_push(it, argv, text):
    r = argv[0]
    cur = it.load(r.addr)
    it.store(r.addr, StrV(path_join(it, cur.b, it.as_str(argv[1]).b)))
    return UNIT


@emodel('Path::is_absolute', 'Path::has_root')
def m_is_absolute(it, argv, text):
    bs = it.as_str(argv[0]).b
    return len(bs) > 0 and _is(it, bs[0], SLASH)


@emodel('Path::is_relative')
def m_is_relative(it, argv, text):
    return not m_is_absolute(it, argv, text)


@emodel('Path::parent')
def m_parent(it, argv, text):
    p = path_parent(it, it.as_str(argv[0]).b)
    return NONE if p is None else some(StrV(p))


@emodel('Path::file_name')
def m_file_name(it, argv, text):
    bs = it.as_str(argv[0]).b
    r = file_name_range(it, bs)
    return NONE if r is None else some(StrV(bs[r[0]:r[1]]))


@emodel('Path::extension')
def m_extension(it, argv, text):
    bs = it.as_str(argv[0]).b
    r = file_name_range(it, bs)
    if r is None:
        return NONE
    stem, ext = split_ext(it, bs[r[0]:r[1]])
    return NONE if ext is None else some(StrV(ext))


@emodel('Path::file_stem')
def m_file_stem(it, argv, text):
    bs = it.as_str(argv[0]).b
    r = file_name_range(it, bs)
    if r is None:
        return NONE
    stem, ext = split_ext(it, bs[r[0]:r[1]])
    return some(StrV(stem))


@emodel('PathBuf::set_extension')
def m_set_extension(it, argv, text):
    r = argv[0]
    bs = it.load(r.addr).b
    ext = it.as_str(argv[1]).b
    for b in ext:
        if _is(it, b, SLASH):
            # std: "extension cannot contain path separators"
            raise RustPanic("set_extension: extension cannot contain path separators")
    rng = file_name_range(it, bs)
    if rng is None:
        return False
    stem, old = split_ext(it, bs[rng[0]:rng[1]])
    new = tuple(bs[:rng[0]]) + tuple(stem)
    if len(ext) > 0:
        new = new + (DOT,) + tuple(ext)
    it.store(r.addr, StrV(new))
    return True


@emodel('Path::with_extension')
def m_with_extension(it, argv, text):
    a = it.alloc(it.as_str(argv[0]))
    m_set_extension(it, [RefV(a), argv[1]], text)
    return it.load(a)


@emodel('Path::strip_prefix')
def m_strip_prefix_path(it, argv, text):
    p = it.as_str(argv[0]).b
    b = it.as_str(argv[1]).b
    pa, pc = split_components(it, p)
    ba, bc = split_components(it, b)
    if pa != ba or len(bc) > len(pc):
        return err(OpaqueV('StripPrefixError'))
    for x, y in zip(pc, bc):
        if len(x) != len(y) or not bytes_eq(it, x, y, 'strip_prefix'):
            return err(OpaqueV('StripPrefixError'))
    rest = pc[len(bc):]
    out = []
    for i, c in enumerate(rest):
        if i:
            out.append(SLASH)
        out.extend(c)
    return ok(StrV(tuple(out)))


@emodel('Path::starts_with')
def m_path_starts_with(it, argv, text):
    return m_strip_prefix_path(it, argv, text).idx == 0




# ----------------------------------------------------------------------------- Env

class Env:
    BUFCAP = 8192

    def __init__(self, it, cwd=b'/w'):
        self.it = it
        self.cwd = tuple(cwd)
        self.nodes = []            # list of [path_components(list of tuples), kind('file'|'dir'), content tuple|None]
        self.handles = {}
        self.next_handle = 0
        self.log = []              # mutation log: (op, path_bytes)
        self.fault_budget = 0      # number of injected I/O failures still allowed on this path
        self.fault_filter = None   # optional predicate(op, path) -> bool
        self.faults = []
        self.commands = []
        self.proc_handler = None
        self.env_vars = {}
        # scheduler
        self.pending = []          # closures queued on the pool
        self.queue = []            # messages sent, not yet received
        self.stuttered = False
        self.sched_trace = []
        self.senders_alive = True
        self.max_tasks = 200
        self.spawned = 0
        self.on_task = None
        self.strict_readonly = False
        self.dir_order = 'listed'
        self.add_dir(b'/')

    # ---- tree
    def norm(self, bs):
        return normalize_abs(self.it, tuple(bs), self.cwd)

    def find(self, comps, follow=True, _depth=0):
        """node at the path; symbolic links (add_symlink) are followed in every component, and in the last one unless follow=False"""
        if not getattr(self, 'has_links', False):
            return self._find_exact(comps)
        if _depth > 8:
            return None                                   # ELOOP
        cur = []
        comps = list(comps)
        for i, c in enumerate(comps):
            cur.append(c)
            n = self._find_exact(cur)
            if n is None:
                return None
            last = (i == len(comps) - 1)
            if n[1] == 'symlink' and (follow or not last):
                return self.find(list(n[2]) + comps[i + 1:], follow, _depth + 1)
        return self._find_exact(cur)

    def realpath(self, comps, _depth=0):
        """components of the path with every symbolic link resolved (None if it does not exist)"""
        if not getattr(self, 'has_links', False):
            return list(comps) if self._find_exact(comps) is not None else None
        if _depth > 8:
            return None
        cur = []
        comps = list(comps)
        for i, c in enumerate(comps):
            cur.append(c)
            n = self._find_exact(cur)
            if n is None:
                return None
            if n[1] == 'symlink':
                return self.realpath(list(n[2]) + comps[i + 1:], _depth + 1)
        return cur

    def add_symlink(self, path, target):
        comps = self.norm(path)
        self.add_dir(comps_to_bytes(comps[:-1]))
        self.has_links = True
        self.nodes.append([comps, 'symlink', tuple(self.norm(target))])

    def _find_exact(self, comps):
        it = self.it
        for n in self.nodes:
            nc = n[0]
            if len(nc) != len(comps):
                continue
            same = True
            for x, y in zip(nc, comps):
                if len(x) != len(y) or not bytes_eq(it, x, y, 'fs'):
                    same = False
                    break
            if same:
                return n
        return None

    def add_dir(self, path):
        comps = self.norm(path)
        for k in range(len(comps) + 1):
            if self.find(comps[:k]) is None:
                self.nodes.append([comps[:k], 'dir', None])

    def add_file(self, path, content):
        comps = self.norm(path)
        self.add_dir(comps_to_bytes(comps[:-1]))
        n = self.find(comps)
        if n is None:
            self.nodes.append([comps, 'file', tuple(content)])
        else:
            n[1] = 'file'
            n[2] = tuple(content)

    def lookup(self, bs):
        return self.find(self.norm(bs))

    def read_file(self, path):
        n = self.lookup(path)
        if n is None or n[1] != 'file':
            return None
        return n[2]

    def snapshot(self):
        return {comps_to_bytes_printable(n[0]): (n[1], n[2]) for n in self.nodes}

    # ---- faults
    def maybe_fail(self, op, path):
        if self.fault_budget <= 0:
            return False
        if self.fault_filter is not None and not self.fault_filter(op, path):
            return False
        if self.it.ctx.choose(2, 'fault:' + op) == 1:
            self.fault_budget -= 1
            self.faults.append((op, printable(path)))
            return True
        return False

    def mutate(self, op, path):
        self.log.append((op, printable(comps_to_bytes(self.norm(path)))))

    # ---- handles
    def open_handle(self, comps, mode):
        h = self.next_handle
        self.next_handle += 1
        self.handles[h] = {'comps': comps, 'pos': 0, 'mode': mode, 'buf': [], 'closed': False}
        return h

    def on_drop(self, it, v):
        if v.kind == 'Receiver':
            self.receiver_dropped = True
            return
        if v.kind == 'BufWriter':
            h = self.handles[v.data]
            if h['buf'] and not h.get('poisoned'):
                # BufWriter::drop flushes and ignores errors
                if not self.maybe_fail('write(drop)', comps_to_bytes(h['comps'])):
                    self._append(h, h['buf'])
                h['buf'] = []

    def _append(self, h, data):
        n = self.find(h['comps'])
        if n is None:
            # file unlinked while open: writes go nowhere visible
            return
        if h.get('positional'):
            # a handle opened for writing without O_APPEND / O_TRUNC has one file offset shared by reads and writes: the bytes
            # replace what is there and extend the file when they reach past its end (older content beyond them stays)
            off = h['pos']
            cur = tuple(n[2])
            if off > len(cur):
                cur = cur + (0,) * (off - len(cur))
            n[2] = cur[:off] + tuple(data) + cur[off + len(data):]
            h['pos'] = off + len(data)
        else:
            n[2] = tuple(n[2]) + tuple(data)
        self.log.append(('write', printable(comps_to_bytes(h['comps']))))

    # ---- iter protocol for env iterators
    def iter_next(self, it, iv):
        kind = iv.data[0]
        if kind == 'lines':
            h = self.handles[iv.data[1]]
            n = self.find(h['comps'])
            if n is None or n[1] != 'file':
                return some_err_once(iv)
            if self.maybe_fail('read', comps_to_bytes(h['comps'])):
                return err(io_error('Other')), iv
            content = n[2]
            pos = h['pos']
            if pos >= len(content):
                return None, iv
            j = pos
            while j < len(content) and not _is(it, content[j], 10):
                j += 1
            line = content[pos:j]
            h['pos'] = j + 1 if j < len(content) else j
            if j < len(content) and len(line) > 0 and _is(it, line[-1], 13):
                line = line[:-1]
            if not valid_utf8(it, line):
                return err(io_error('InvalidData')), iv
            return ok(StrV(tuple(line))), iv
        if kind == 'readdir':
            entries, pos = iv.data[1], iv.data[2]
            if pos >= len(entries):
                return None, iv
            e = entries[pos]
            niv = IterV('env', ('readdir', entries, pos + 1))
            if self.maybe_fail('readdir_entry', e):
                return err(io_error('Other')), niv
            return ok(OpaqueV('DirEntry', StrV(e))), niv
        raise Unsupported("env iterator " + kind)


def some_err_once(iv):
    return err(io_error('Other')), iv


def valid_utf8(it, bs):
    i = 0
    n = len(bs)
    while i < n:
        b = bs[i]
        if is_sym(b):
            dom = it.ctx.syms.get(b[1])
            if dom is None or max(dom) >= 0x80:
                # unconstrained symbolic byte: fork on ASCII or not; non-ASCII symbolic => treat as invalid start
                if it.ctx.branch(t_in(b, frozenset(range(128))), 'utf8'):
                    i += 1
                    continue
                return False
            i += 1
            continue
        if b < 0x80:
            i += 1
            continue
        w = 2 if b >> 5 == 0b110 else 3 if b >> 4 == 0b1110 else 4 if b >> 3 == 0b11110 else None
        if w is None or i + w > n or not all(isinstance(x, int) for x in bs[i:i + w]):
            return False
        try:
            bytes(bs[i:i + w]).decode('utf8')
        except UnicodeDecodeError:
            return False
        i += w
    return True


def printable(bs):
    return ''.join(chr(b) if isinstance(b, int) else '<%s>' % b[1] for b in bs)


def comps_to_bytes_printable(comps):
    return printable(comps_to_bytes(comps))


def env_of(it):
    if it.env is None:
        raise Unsupported("environment model not installed by the harness")
    return it.env


# ----------------------------------------------------------------------------- fs calls

def path_arg(it, v):
    v = it.deref_all(v)
    if isinstance(v, StructV) and v.name == 'AbsPath':
        return it.as_str(v.f[1]).b
    return it.as_str(v).b


@emodel('Path::exists', 'Path::try_exists')
def m_exists(it, argv, text):
    return env_of(it).lookup(path_arg(it, argv[0])) is not None


@emodel('Path::is_file')
def m_is_file(it, argv, text):
    n = env_of(it).lookup(path_arg(it, argv[0]))
    return n is not None and n[1] == 'file'


@emodel('Path::is_dir')
def m_is_dir(it, argv, text):
    n = env_of(it).lookup(path_arg(it, argv[0]))
    return n is not None and n[1] == 'dir'


@emodel('Path::canonicalize', 'canonicalize')
def m_canonicalize(it, argv, text):
    env = env_of(it)
    p = path_arg(it, argv[0])
    comps = env.norm(p)
    if env.find(comps) is None:
        return err(io_error('NotFound'))
    if env.maybe_fail('canonicalize', p):
        return err(io_error('Other'))
    real = env.realpath(comps)
    return ok(StrV(comps_to_bytes(real if real is not None else comps)))


@emodel('File::open')
def m_file_open(it, argv, text):
    env = env_of(it)
    p = path_arg(it, argv[0])
    comps = env.norm(p)
    n = env.find(comps)
    if n is None:
        return err(io_error('NotFound'))
    if env.maybe_fail('open', p):
        return err(io_error('PermissionDenied'))
    return ok(OpaqueV('File', env.open_handle(comps, 'r')))


@emodel('File::create')
def m_file_create(it, argv, text):
    env = env_of(it)
    p = path_arg(it, argv[0])
    comps = env.norm(p)
    par = env.find(comps[:-1])
    if par is None or par[1] != 'dir' or not comps:
        return err(io_error('NotFound'))
    n = env.find(comps)
    if n is not None and n[1] == 'dir':
        return err(io_error('IsADirectory'))
    if env.maybe_fail('create', p):
        return err(io_error('PermissionDenied'))
    if n is None:
        env.nodes.append([comps, 'file', ()])
        env.log.append(('create', printable(comps_to_bytes(comps))))
    else:
        n[2] = ()
        env.log.append(('truncate', printable(comps_to_bytes(comps))))
    return ok(OpaqueV('File', env.open_handle(comps, 'w')))


@emodel('BufReader::new')
def m_bufreader_new(it, argv, text):
    return OpaqueV('BufReader', argv[0].data)


@emodel('BufWriter::new')
def m_bufwriter_new(it, argv, text):
    return OpaqueV('BufWriter', argv[0].data)


@emodel('BufRead::lines')
def m_bufread_lines(it, argv, text):
    return IterV('env', ('lines', argv[0].data))


@emodel('BufRead::read_until')
def m_read_until(it, argv, text):
    env = env_of(it)
    rd = it.deref_all(argv[0])
    h = env.handles[rd.data]
    delim = argv[1]
    bufref = argv[2]
    n = env.find(h['comps'])
    if n is None or n[1] != 'file':
        return err(io_error('IsADirectory'))
    if env.maybe_fail('read', comps_to_bytes(h['comps'])):
        return err(io_error('Other'))
    content = n[2]
    pos = h['pos']
    j = pos
    while j < len(content) and not _is(it, content[j], delim):
        j += 1
    end = j + 1 if j < len(content) else j
    h['pos'] = end
    cur = it.load(bufref.addr)
    it.store(bufref.addr, VecV(cur.e + tuple(content[pos:end])))
    return ok(end - pos)


@emodel('Read::read_exact')
def m_read_exact(it, argv, text):
    """BufReader<File>::read_exact, with the buffer discipline of std's BufReader (capacity 8 KiB): data is served
    from the buffer; an empty buffer is refilled with up to one capacity, except that a request of at least one
    capacity bypasses it"""
    env = env_of(it)
    rd = it.deref_all(argv[0])
    h = env.handles[rd.data]
    dst = argv[1]
    n = env.find(h['comps'])
    if isinstance(dst, RefV):
        inner = it.load(dst.addr)
        dst = SliceV(dst.addr, 0, len(inner.e))
    want = dst.end - dst.start
    if n is None or n[1] != 'file':
        return err(io_error('IsADirectory'))
    if env.maybe_fail('read', comps_to_bytes(h['comps'])):
        return err(io_error('Other'))
    content = n[2]
    start = h['pos']
    pos = start
    bend = max(h.get('bufend', 0), pos) if h.get('bufend') is not None else pos
    remaining = want
    while remaining > 0:
        avail = bend - pos
        if avail > 0:
            take = min(avail, remaining)
            pos += take
            remaining -= take
        elif remaining >= Env.BUFCAP and rd.kind == 'BufReader':
            take = min(remaining, len(content) - pos)
            if take == 0:
                break
            pos += take
            remaining -= take
            bend = pos
        else:
            bend = min(len(content), pos + Env.BUFCAP)
            if bend == pos:
                break
    h['pos'] = pos
    h['bufend'] = bend
    if remaining > 0:
        return err(io_error('UnexpectedEof'))
    base = it.load(dst.addr)
    it.store(dst.addr, VecV(base.e[:dst.start] + tuple(content[start:start + want]) + base.e[dst.end:]))
    return ok(UNIT)


@emodel('Write::write_all')
def m_write_all(it, argv, text):
    env = env_of(it)
    w = it.deref_all(argv[0])
    data = it.deref_all(argv[1])
    bs = data.b if isinstance(data, StrV) else tuple(it.as_seq(argv[1]))
    if w.kind not in ('BufWriter', 'File'):
        return ok(UNIT)     # terminal streams
    h = env.handles[w.data]
    if w.kind == 'BufWriter':
        if len(h['buf']) + len(bs) > Env.BUFCAP:
            if env.maybe_fail('write', comps_to_bytes(h['comps'])):
                h['poisoned'] = True
                return err(io_error('StorageFull'))
            env._append(h, h['buf'])
            h['buf'] = []
        if len(bs) >= Env.BUFCAP:
            if env.maybe_fail('write', comps_to_bytes(h['comps'])):
                return err(io_error('StorageFull'))
            env._append(h, bs)
        else:
            # a buffered write cannot fail
            h['buf'] = list(h['buf']) + list(bs)
        return ok(UNIT)
    if env.maybe_fail('write', comps_to_bytes(h['comps'])):
        return err(io_error('StorageFull'))
    env._append(h, bs)
    return ok(UNIT)


@emodel('Write::flush')
def m_flush(it, argv, text):
    env = env_of(it)
    w = it.deref_all(argv[0])
    if w.kind not in ('BufWriter', 'File'):
        return ok(UNIT)
    h = env.handles[w.data]
    if w.kind == 'BufWriter' and h['buf']:
        if env.maybe_fail('write', comps_to_bytes(h['comps'])):
            h['poisoned'] = True
            return err(io_error('StorageFull'))
        env._append(h, h['buf'])
        h['buf'] = []
    return ok(UNIT)


@emodel('read_to_string')
def m_read_to_string(it, argv, text):
    env = env_of(it)
    p = path_arg(it, argv[0])
    n = env.lookup(p)
    if n is None:
        return err(io_error('NotFound'))
    if n[1] != 'file':
        return err(io_error('IsADirectory'))
    if env.maybe_fail('read', p):
        return err(io_error('Other'))
    if not valid_utf8(it, n[2]):
        return err(io_error('InvalidData'))
    return ok(StrV(tuple(n[2])))


@emodel('read')
def m_fs_read(it, argv, text):
    env = env_of(it)
    p = path_arg(it, argv[0])
    n = env.lookup(p)
    if n is None:
        return err(io_error('NotFound'))
    if n[1] != 'file':
        return err(io_error('IsADirectory'))
    if env.maybe_fail('read', p):
        return err(io_error('Other'))
    return ok(VecV(tuple(n[2])))


@emodel('write')
def m_fs_write(it, argv, text):
    env = env_of(it)
    p = path_arg(it, argv[0])
    data = it.deref_all(argv[1])
    bs = data.b if isinstance(data, StrV) else tuple(it.as_seq(argv[1]))
    comps = env.norm(p)
    par = env.find(comps[:-1])
    if par is None or par[1] != 'dir' or not comps:
        return err(io_error('NotFound'))
    n = env.find(comps)
    if n is not None and n[1] == 'dir':
        return err(io_error('IsADirectory'))
    if env.maybe_fail('create', p):
        return err(io_error('PermissionDenied'))
    if n is None:
        n = [comps, 'file', ()]
        env.nodes.append(n)
        env.log.append(('create', printable(comps_to_bytes(comps))))
    else:
        n[2] = ()
        env.log.append(('truncate', printable(comps_to_bytes(comps))))
    if env.maybe_fail('write', p):
        return err(io_error('StorageFull'))
    n[2] = tuple(bs)
    env.log.append(('write', printable(comps_to_bytes(comps))))
    return ok(UNIT)


@emodel('remove_file')
def m_remove_file(it, argv, text):
    env = env_of(it)
    p = path_arg(it, argv[0])
    comps = env.norm(p)
    n = env.find(comps, follow=False)
    if n is None:
        return err(io_error('NotFound'))
    if n[1] == 'dir':
        return err(io_error('IsADirectory'))
    if env.maybe_fail('remove', p):
        return err(io_error('PermissionDenied'))
    env.nodes.remove(n)
    env.log.append(('remove', printable(comps_to_bytes(comps))))
    return ok(UNIT)


@emodel('rename')
def m_rename(it, argv, text):
    env = env_of(it)
    a = env.norm(path_arg(it, argv[0]))
    b = env.norm(path_arg(it, argv[1]))
    n = env.find(a)
    if n is None:
        return err(io_error('NotFound'))
    if env.maybe_fail('rename', comps_to_bytes(a)):
        return err(io_error('PermissionDenied'))
    o = env.find(b)
    if o is not None:
        env.nodes.remove(o)
    n[0] = b
    env.log.append(('remove', printable(comps_to_bytes(a))))
    env.log.append(('create', printable(comps_to_bytes(b))))
    env.log.append(('write', printable(comps_to_bytes(b))))
    return ok(UNIT)


@emodel('create_dir_all', 'create_dir')
def m_create_dir_all(it, argv, text):
    env = env_of(it)
    p = path_arg(it, argv[0])
    env.add_dir(p)
    env.log.append(('mkdir', printable(comps_to_bytes(env.norm(p)))))
    return ok(UNIT)


@emodel('metadata', 'Path::metadata', 'File::metadata')
def m_metadata(it, argv, text):
    env = env_of(it)
    v = it.deref_all(argv[0])
    if isinstance(v, OpaqueV) and v.kind in ('File', 'BufReader'):
        n = env.find(env.handles[v.data]['comps'])
        p = comps_to_bytes(env.handles[v.data]['comps'])
    else:
        p = path_arg(it, argv[0])
        n = env.lookup(p)
    if n is None:
        return err(io_error('NotFound'))
    if env.maybe_fail('metadata', p):
        return err(io_error('PermissionDenied'))
    return ok(OpaqueV('Metadata', (n[1], len(n[2]) if n[1] == 'file' else 4096)))


@emodel('Metadata::len')
def m_metadata_len(it, argv, text):
    return it.deref_all(argv[0]).data[1]


@emodel('Metadata::is_file')
def m_metadata_is_file(it, argv, text):
    return it.deref_all(argv[0]).data[0] == 'file'


@emodel('Metadata::is_dir')
def m_metadata_is_dir(it, argv, text):
    return it.deref_all(argv[0]).data[0] == 'dir'


@emodel('Path::read_dir', 'read_dir')
def m_read_dir(it, argv, text):
    env = env_of(it)
    p = path_arg(it, argv[0])
    comps = env.norm(p)
    n = env.find(comps)
    if n is None:
        return err(io_error('NotFound'))
    if n[1] != 'dir':
        return err(io_error('NotADirectory'))
    if env.maybe_fail('readdir', p):
        return err(io_error('PermissionDenied'))
    entries = []
    for m in env.nodes:
        if len(m[0]) == len(n[0]) + 1 and env._find_exact(m[0][:-1]) is n:
            entries.append(path_join(it, p, m[0][-1]))
    if env.dir_order == 'permute' and len(entries) > 1:
        out = []
        rem = entries
        while len(rem) > 1:
            k = it.ctx.choose(len(rem), 'dirorder')
            out.append(rem[k])
            rem = rem[:k] + rem[k + 1:]
        entries = out + rem
    return ok(IterV('env', ('readdir', tuple(entries), 0)))


@emodel('DirEntry::path')
def m_direntry_path(it, argv, text):
    return it.deref_all(argv[0]).data


# ----------------------------------------------------------------------------- processes

@emodel('Command::new')
def m_command_new(it, argv, text):
    return StructV('Command', (it.as_str(argv[0]), NONE, VecV(()), VecV(()), TupleV(('inherit', 'inherit', 'inherit'))))


def _cmd_update(it, ref, k, f):
    c = it.load(ref.addr)
    fl = list(c.f)
    fl[k] = f(fl[k])
    it.store(ref.addr, StructV('Command', tuple(fl)))
    return ref


@emodel('Command::current_dir')
def m_command_current_dir(it, argv, text):
    d = it.as_str(argv[1])
    return _cmd_update(it, argv[0], 1, lambda old: some(d))


@emodel('Command::arg')
def m_command_arg(it, argv, text):
    a = it.as_str(argv[1])
    return _cmd_update(it, argv[0], 2, lambda old: VecV(old.e + (a,)))


@emodel('Command::args')
def m_command_args(it, argv, text):
    items = tuple(it.as_str(x) for x in it.as_seq(argv[1]))
    return _cmd_update(it, argv[0], 2, lambda old: VecV(old.e + items))


@emodel('Command::env')
def m_command_env(it, argv, text):
    kv = TupleV((it.as_str(argv[1]), it.as_str(argv[2])))
    return _cmd_update(it, argv[0], 3, lambda old: VecV(old.e + (kv,)))


@emodel('Command::output')
def m_command_output(it, argv, text):
    env = env_of(it)
    c = it.deref_all(argv[0])
    rec = {'exe': c.f[0], 'cwd': None if c.f[1].idx == 0 else c.f[1].f[0], 'args': list(c.f[2].e),
           'env': [(kv.f[0], kv.f[1]) for kv in c.f[3].e]}
    env.commands.append(rec)
    if env.proc_handler is None:
        raise Unsupported("a command was spawned but the harness installed no process model")
    res = env.proc_handler(it, rec)
    if res is None:
        return err(io_error('NotFound'))
    code, out, errb = res
    return ok(StructV('Output', (OpaqueV('ExitStatus', code), VecV(tuple(out)), VecV(tuple(errb)))))


@emodel('ExitStatus::success')
def m_exit_success(it, argv, text):
    return it.deref_all(argv[0]).data == 0


@emodel('ExitStatus::code')
def m_exit_code(it, argv, text):
    c = it.deref_all(argv[0]).data
    return NONE if c is None else some(c)


@emodel('which')
def m_which(it, argv, text):
    """which::which for a bare name: the first $PATH entry holding such a file, joined with the name AS THE ENTRY IS SPELLED
    (a relative entry gives a relative result); names containing a separator are resolved against the process cwd"""
    env = env_of(it)
    exe = it.as_str(argv[0]).b
    has_slash = False
    for b in exe:
        if (b == SLASH) if not is_sym(b) else it.ctx.branch(t_eq(b, SLASH), 'which_slash'):
            has_slash = True
            break
    if has_slash:
        n = env.lookup(exe)
        if n is not None and n[1] == 'file':
            return ok(StrV(comps_to_bytes(env.norm(exe))))
        return err(OpaqueV('which::Error'))
    path = bytes(env.env_vars.get(b'PATH', b'/usr/bin:/bin'))
    for d in path.split(b':'):
        if not d:
            continue
        p = tuple(d.rstrip(b'/') if d != b'/' else b'') + (SLASH,) + tuple(exe)
        n = env.lookup(p)
        if n is not None and n[1] == 'file':
            return ok(StrV(p))
    return err(OpaqueV('which::Error'))


@emodel('var')
def m_env_var(it, argv, text):
    env = env_of(it)
    k = bytes(it.as_str(argv[0]).b)
    if k in env.env_vars:
        return ok(StrV(tuple(env.env_vars[k])))
    return err(OpaqueV('VarError'))


# ----------------------------------------------------------------------------- clock / terminal / misc opaque

@emodel('Instant::now')
def m_instant_now(it, argv, text):
    return OpaqueV('Instant')


@emodel('Instant::elapsed', 'Duration::from_millis', 'Duration::from_secs')
def m_duration(it, argv, text):
    return OpaqueV('Duration')


@emodel('Duration::as_secs_f32')
def m_as_secs(it, argv, text):
    return OpaqueV('float', '0.0')


@emodel('sleep')
def m_sleep(it, argv, text):
    return UNIT


@emodel('StandardStream::stderr', 'StandardStream::stdout')
def m_stdstream(it, argv, text):
    return OpaqueV('StandardStream')


@emodel('ColorSpec::new')
def m_colorspec_new(it, argv, text):
    return OpaqueV('ColorSpec')


@emodel('ColorSpec::set_bold', 'ColorSpec::set_fg')
def m_colorspec_set(it, argv, text):
    return argv[0]


@emodel('WriteColor::reset', 'WriteColor::set_color', '<StandardStream as Write>::write_fmt')
def m_term_write(it, argv, text):
    # a write to the terminal can fail like any other write (stderr redirected to a full disk, a closed pipe)
    # (once it has failed it keeps failing: the disk stays full, the reader of the pipe stays gone -- so the only choice is WHEN it
    # starts to fail, which keeps the exploration linear in the number of writes)
    env = it.env
    if env is not None:
        if getattr(env, 'stderr_dead', False):
            return err(io_error('StorageFull'))
        if env.fault_budget > 0 and env.maybe_fail('stderr', b'/dev/stderr'):
            env.stderr_dead = True
            return err(io_error('StorageFull'))
    return ok(UNIT)


# ----------------------------------------------------------------------------- thread pool + channel

@emodel('Builder::new')
def m_builder_new(it, argv, text):
    return StructV('Builder', (NONE,))


@emodel('Builder::num_threads')
def m_builder_num_threads(it, argv, text):
    n = argv[1]
    if isinstance(n, BoolT) or is_sym(n):
        raise Unsupported("symbolic thread count")
    if n == 0:
        # threadpool docs: "Panics: This method will panic if `num_threads` is 0."
        raise RustPanic("threadpool::Builder::num_threads: assertion failed: num_threads > 0")
    return StructV('Builder', (some(n),))


@emodel('Builder::build')
def m_builder_build(it, argv, text):
    return OpaqueV('ThreadPool', argv[0].f[0])


@emodel('channel')
def m_channel(it, argv, text):
    env = env_of(it)
    # a new channel: the model keeps one channel per run
    env.receiver_dropped = False
    env.queue = []
    env.blocked = []
    env.chan_cap = None
    env.idle_empties = 0
    env.stuttered = False
    return TupleV((OpaqueV('Sender'), OpaqueV('Receiver')))


@emodel('sync_channel')
def m_sync_channel(it, argv, text):
    """bounded channel: a send on a full channel blocks its thread until the receiver takes a message (capacity 0 = rendezvous)"""
    r = m_channel(it, argv, text)
    cap = argv[0]
    if not isinstance(cap, int) or isinstance(cap, bool):
        raise Unsupported("symbolic channel capacity")
    env_of(it).chan_cap = cap
    return TupleV((OpaqueV('SyncSender'), OpaqueV('Receiver')))


def _chan_refill(env):
    """blocked senders proceed as soon as the buffer has room"""
    cap = getattr(env, 'chan_cap', None)
    while getattr(env, 'blocked', None) and cap is not None and len(env.queue) < max(cap, 0):
        env.queue.append(env.blocked.pop(0))


def _chan_pop(env):
    if env.queue:
        msg = env.queue.pop(0)
    else:
        msg = env.blocked.pop(0)          # rendezvous hand-over
    _chan_refill(env)
    return msg


def _chan_nonempty(env):
    return bool(env.queue) or bool(getattr(env, 'blocked', None))


@emodel('ThreadPool::execute')
def m_pool_execute(it, argv, text):
    env = env_of(it)
    env.spawned += 1
    if env.spawned > env.max_tasks:
        from .core import BoundExceeded
        raise BoundExceeded("more than %d tasks spawned" % env.max_tasks)
    env.pending.append(argv[1])
    env.sched_trace.append(('spawn', len(env.pending)))
    return UNIT


def _run_task(it, env, k):
    task = env.pending.pop(k)
    env.sched_trace.append(('run', k))
    it.call_value(task, [])


@emodel('ThreadPool::join')
def m_pool_join(it, argv, text):
    env = env_of(it)
    while env.pending:
        _run_task(it, env, 0)
    if getattr(env, 'blocked', None):
        # join() returns when every worker is idle; a worker blocked in send() on a full bounded channel never becomes idle
        # while the only receiver is the thread that is waiting in join()
        raise Violation("hang: ThreadPool::join waits for %d worker(s) blocked in send() on a full bounded channel that nobody "
                        "receives from" % len(env.blocked), {'op': 'sched', 'trace': list(env.sched_trace)})
    return UNIT


@emodel('Sender::send', 'SyncSender::send')
def m_send(it, argv, text):
    env = env_of(it)
    if getattr(env, 'receiver_dropped', False):
        # mpsc contract: send fails once the receiver has been dropped
        return err(OpaqueV('SendError'))
    cap = getattr(env, 'chan_cap', None)
    if cap is not None and len(env.queue) >= cap:
        # the sending worker blocks here; its message is handed over when the receiver makes room (the task model is
        # run-to-completion, and nothing follows the send in a worker, so only the hand-over is delayed)
        env.blocked.append(argv[1])
        return ok(UNIT)
    env.queue.append(argv[1])
    return ok(UNIT)


@emodel('SyncSender::try_send')
def m_try_send(it, argv, text):
    env = env_of(it)
    if getattr(env, 'receiver_dropped', False):
        return err(EnumV('TrySendError', 'Disconnected', 1, (argv[1],)))
    cap = getattr(env, 'chan_cap', None)
    if cap is not None and len(env.queue) >= cap:
        return err(EnumV('TrySendError', 'Full', 0, (argv[1],)))
    env.queue.append(argv[1])
    return ok(UNIT)


@emodel('Receiver::try_recv')
def m_try_recv(it, argv, text):
    env = env_of(it)
    ctx = it.ctx
    EMPTY = err(EnumV('TryRecvError', 'Empty', 0, ()))
    if getattr(env, 'sched_policy', 'all') == 'fifo':
        # one fixed schedule (used where the property does not depend on the completion order)
        while True:
            if _chan_nonempty(env):
                env.idle_empties = 0
                return ok(_chan_pop(env))
            if env.pending:
                env.idle_empties = 0
                _run_task(it, env, 0)
                continue
            env.idle_empties = getattr(env, 'idle_empties', 0) + 1
            if env.idle_empties >= 3:
                raise Violation("hang: coordinator keeps polling an empty channel with no task in flight",
                                {'op': 'sched', 'trace': list(env.sched_trace)})
            return EMPTY
    while True:
        opts = []
        if _chan_nonempty(env):
            opts.append(('deliver', None))
        else:
            for k in range(len(env.pending)):
                opts.append(('run', k))
            if not env.stuttered or not env.pending:
                opts.append(('empty', None))
        d = ctx.choose(len(opts), 'sched')
        kind, k = opts[d]
        if kind == 'deliver':
            env.stuttered = False
            env.idle_empties = 0
            msg = _chan_pop(env)
            env.sched_trace.append(('recv',))
            return ok(msg)
        if kind == 'run':
            env.stuttered = False
            env.idle_empties = 0
            _run_task(it, env, k)
            continue
        # empty
        env.sched_trace.append(('empty',))
        if not env.pending and not _chan_nonempty(env):
            # the run loop and the drop loop may each observe one idle Empty before exiting; more than that is a
            # loop that polls forever (done != total with nothing in flight)
            env.idle_empties = getattr(env, 'idle_empties', 0) + 1
            if env.idle_empties >= 3:
                raise Violation("hang: coordinator keeps polling an empty channel with no task in flight",
                                {'op': 'sched', 'trace': list(env.sched_trace)})
        env.stuttered = True
        return EMPTY


@emodel('Receiver::recv')
def m_recv(it, argv, text):
    r = m_try_recv(it, argv, text)
    return r


@emodel('BufRead::fill_buf')
def m_fill_buf(it, argv, text):
    env = env_of(it)
    rd = it.deref_all(argv[0])
    h = env.handles[rd.data]
    n = env.find(h['comps'])
    if n is None or n[1] != 'file':
        return err(io_error('IsADirectory'))
    if env.maybe_fail('read', comps_to_bytes(h['comps'])):
        return err(io_error('Other'))
    # a BufReader never holds more than its capacity (8 KiB by default)
    bstart = h.get('bufstart')
    if bstart is None or h['pos'] >= h.get('bufend', 0):
        h['bufstart'] = h['pos']
        h['bufend'] = min(len(n[2]), h['pos'] + Env.BUFCAP)
    return ok(VecV(tuple(n[2][h['pos']:h['bufend']])))


@emodel('BufRead::consume')
def m_consume(it, argv, text):
    env = env_of(it)
    rd = it.deref_all(argv[0])
    h = env.handles[rd.data]
    h['pos'] += argv[1]
    return UNIT


@emodel('BufReader::buffer')
def m_bufreader_buffer(it, argv, text):
    env = env_of(it)
    rd = it.deref_all(argv[0])
    h = env.handles[rd.data]
    n = env.find(h['comps'])
    if n is None or h.get('bufend') is None:
        return VecV(())
    return VecV(tuple(n[2][h['pos']:max(h['pos'], h['bufend'])]))


@emodel('Read::read_to_end', 'Read::read_to_string')
def m_read_to_end(it, argv, text):
    env = env_of(it)
    rd = it.deref_all(argv[0])
    if isinstance(rd, OpaqueV) and rd.kind == 'Pipe':
        p = env.pipes[rd.data]
        data = tuple(p['data'][p['pos']:])
        p['pos'] = len(p['data'])
        if text.endswith('read_to_string') and not valid_utf8(it, data):
            return err(io_error('InvalidData'))
        cur = it.load(argv[1].addr)
        it.store(argv[1].addr, StrV(cur.b + data) if isinstance(cur, StrV) else VecV(cur.e + data))
        return ok(len(data))
    h = env.handles[rd.data]
    n = env.find(h['comps'])
    if n is None or n[1] != 'file':
        return err(io_error('IsADirectory'))
    if env.maybe_fail('read', comps_to_bytes(h['comps'])):
        return err(io_error('Other'))
    data = tuple(n[2][h['pos']:])
    if text.endswith('read_to_string') and not valid_utf8(it, data):
        return err(io_error('InvalidData'))
    h['pos'] = len(n[2])
    cur = it.load(argv[1].addr)
    if isinstance(cur, StrV):
        it.store(argv[1].addr, StrV(cur.b + data))
    else:
        it.store(argv[1].addr, VecV(cur.e + data))
    return ok(len(data))


@emodel('Read::read')
def m_read(it, argv, text):
    env = env_of(it)
    rd = it.deref_all(argv[0])
    h = env.handles[rd.data]
    dst = argv[1]
    n = env.find(h['comps'])
    if isinstance(dst, RefV):
        inner = it.load(dst.addr)
        dst = SliceV(dst.addr, 0, len(inner.e))
    if n is None or n[1] != 'file':
        return err(io_error('IsADirectory'))
    if env.maybe_fail('read', comps_to_bytes(h['comps'])):
        return err(io_error('Other'))
    want = dst.end - dst.start
    got = min(want, len(n[2]) - h['pos'])
    if rd.kind == 'BufReader':
        # std BufReader::read: an empty buffer and a request of at least one capacity go straight to the file; otherwise the
        # buffer is (re)filled with up to one capacity and the call returns what the BUFFER holds -- possibly less than asked
        pos = h['pos']
        bend = h.get('bufend')
        if bend is None or bend <= pos:
            if want >= Env.BUFCAP:
                bend = pos                      # bypass, buffer stays empty
            else:
                bend = min(len(n[2]), pos + Env.BUFCAP)
                got = min(want, bend - pos)
        else:
            got = min(want, bend - pos)
        h['bufend'] = max(bend, pos + got) if bend > pos else pos + got if want >= Env.BUFCAP else bend
    base = it.load(dst.addr)
    it.store(dst.addr, VecV(base.e[:dst.start] + tuple(n[2][h['pos']:h['pos'] + got]) + base.e[dst.start + got:]))
    h['pos'] += got
    return ok(got)


@emodel('Error::kind')
def m_io_error_kind(it, argv, text):
    e = it.deref_all(argv[0])
    from .interp import BUILTIN_ENUMS
    ks = BUILTIN_ENUMS['ErrorKind']
    k = e.data if isinstance(e, OpaqueV) and e.data in ks else 'Other'
    return EnumV('ErrorKind', k, ks.index(k), ())


@emodel('Error::new', 'Error::other')
def m_io_error_new(it, argv, text):
    a = argv[0]
    if isinstance(a, EnumV) and a.ename == 'ErrorKind':
        return io_error(a.vname)
    return io_error('Other')


@emodel('<Error as From>::from')
def m_io_error_from(it, argv, text):
    a = argv[0]
    if isinstance(a, EnumV) and a.ename == 'ErrorKind':
        return io_error(a.vname)
    return a


@emodel('BufRead::read_line')
def m_read_line(it, argv, text):
    """appends bytes up to and including the next LF to the String; Err(InvalidData) if they are not UTF-8"""
    env = env_of(it)
    rd = it.deref_all(argv[0])
    h = env.handles[rd.data]
    n = env.find(h['comps'])
    if n is None or n[1] != 'file':
        return err(io_error('IsADirectory'))
    if env.maybe_fail('read', comps_to_bytes(h['comps'])):
        return err(io_error('Other'))
    content = n[2]
    pos = h['pos']
    j = pos
    while j < len(content) and not _is(it, content[j], 10):
        j += 1
    end = j + 1 if j < len(content) else j
    chunk = tuple(content[pos:end])
    h['pos'] = end
    if not valid_utf8(it, chunk):
        return err(io_error('InvalidData'))
    cur = it.load(argv[1].addr)
    it.store(argv[1].addr, StrV(cur.b + chunk))
    return ok(end - pos)


@emodel('Read::take')
def m_read_take(it, argv, text):
    rd = it.deref_all(argv[0])
    return OpaqueV('Take', (rd, argv[1]))


@emodel('Read::bytes')
def m_read_bytes(it, argv, text):
    env = env_of(it)
    rd = it.deref_all(argv[0])
    h = env.handles[rd.data]
    n = env.find(h['comps'])
    data = tuple(n[2][h['pos']:]) if n is not None and n[1] == 'file' else ()
    h['pos'] += len(data)
    return IterV('list', (tuple(ok(b) for b in data), 0))


_orig_read_to_end = MODELS['Read::read_to_end']


@emodel('Read::read_to_end', 'Read::read_to_string')
def m_read_to_end2(it, argv, text):
    rd = it.deref_all(argv[0])
    if isinstance(rd, OpaqueV) and rd.kind == 'Take':
        inner, limit = rd.data
        env = env_of(it)
        h = env.handles[inner.data]
        n = env.find(h['comps'])
        if n is None or n[1] != 'file':
            return err(io_error('IsADirectory'))
        if env.maybe_fail('read', comps_to_bytes(h['comps'])):
            return err(io_error('Other'))
        data = tuple(n[2][h['pos']:h['pos'] + limit])
        if text.endswith('read_to_string') and not valid_utf8(it, data):
            return err(io_error('InvalidData'))
        h['pos'] += len(data)
        cur = it.load(argv[1].addr)
        it.store(argv[1].addr, StrV(cur.b + data) if isinstance(cur, StrV) else VecV(cur.e + data))
        return ok(len(data))
    return _orig_read_to_end(it, argv, text)


@emodel('File::set_len')
def m_set_len(it, argv, text):
    env = env_of(it)
    f = it.deref_all(argv[0])
    h = env.handles[f.data]
    n = env.find(h['comps'])
    if n is None:
        return err(io_error('NotFound'))
    n[2] = tuple(n[2][:argv[1]]) + tuple([0] * max(0, argv[1] - len(n[2])))
    env.log.append(('truncate', printable(comps_to_bytes(h['comps']))))
    return ok(UNIT)


@emodel('copy')
def m_fs_copy(it, argv, text):
    env = env_of(it)
    src = env.lookup(path_arg(it, argv[0]))
    if src is None or src[1] != 'file':
        return err(io_error('NotFound'))
    r = m_fs_write(it, [argv[1], VecV(tuple(src[2]))], text)
    return r if r.idx == 1 else ok(len(src[2]))


@emodel('Write::write')
def m_write_once(it, argv, text):
    """a single write: returns how many bytes were accepted.  BufWriter: buffered if it fits; a chunk of at least one
    capacity goes to the file with one write call, which may be short (fault `short-write`) or fail"""
    env = env_of(it)
    w = it.deref_all(argv[0])
    data = it.deref_all(argv[1])
    bs = data.b if isinstance(data, StrV) else tuple(it.as_seq(argv[1]))
    if w.kind not in ('BufWriter', 'File'):
        return ok(len(bs))
    h = env.handles[w.data]
    if w.kind == 'BufWriter':
        if len(h['buf']) + len(bs) > Env.BUFCAP:
            if env.maybe_fail('write', comps_to_bytes(h['comps'])):
                return err(io_error('StorageFull'))
            env._append(h, h['buf'])
            h['buf'] = []
        if len(bs) < Env.BUFCAP:
            h['buf'] = list(h['buf']) + list(bs)
            return ok(len(bs))
    if env.maybe_fail('write', comps_to_bytes(h['comps'])):
        return err(io_error('StorageFull'))
    if len(bs) > 1 and env.maybe_fail('short-write', comps_to_bytes(h['comps'])):
        k = len(bs) // 2
        env._append(h, bs[:k])
        return ok(k)
    env._append(h, bs)
    return ok(len(bs))


# ----------------------------------------------------------------------------- Seek / set_len (round 4)

def _seek_handle(it, v):
    env = env_of(it)
    w = it.deref_all(v)
    if not isinstance(w, OpaqueV) or w.kind not in ('File', 'BufWriter', 'BufReader'):
        raise Unsupported("seek on %r" % (w,))
    return env, w, env.handles[w.data]


@emodel('Seek::rewind')
def m_seek_rewind(it, argv, text):
    env, w, h = _seek_handle(it, argv[0])
    if w.kind == 'BufWriter' and h['buf']:
        env._append(h, h['buf'])
        h['buf'] = []
    h['pos'] = 0
    h['bufend'] = None
    return ok(UNIT)


@emodel('Seek::stream_position')
def m_stream_position(it, argv, text):
    env, w, h = _seek_handle(it, argv[0])
    n = env.find(h['comps'])
    size = len(n[2]) if n is not None and n[1] == 'file' else 0
    if h.get('mode') == 'w' and not h.get('positional'):
        return ok(size + len(h['buf']))       # append-style handle (File::create): the offset is the end of what was written
    return ok(h['pos'] + (len(h['buf']) if w.kind == 'BufWriter' else 0))


@emodel('Seek::seek')
def m_seek(it, argv, text):
    env, w, h = _seek_handle(it, argv[0])
    sf = it.deref_all(argv[1])
    if not (isinstance(sf, EnumV) and sf.vname == 'Start' and isinstance(sf.f[0], int)):
        raise Unsupported("seek to %r" % (sf,))
    if w.kind == 'BufWriter' and h['buf']:
        env._append(h, h['buf'])
        h['buf'] = []
    h['pos'] = sf.f[0]
    h['bufend'] = None
    return ok(sf.f[0])


@emodel('File::set_len')
def m_set_len(it, argv, text):
    env, w, h = _seek_handle(it, argv[0])
    n = env.find(h['comps'])
    if n is None or n[1] != 'file':
        return err(io_error('NotFound'))
    if env.maybe_fail('write', comps_to_bytes(h['comps'])):
        return err(io_error('StorageFull'))
    k = argv[1]
    if not isinstance(k, int):
        raise Unsupported("set_len with a symbolic length")
    cur = tuple(n[2])
    n[2] = cur[:k] if k <= len(cur) else cur + (0,) * (k - len(cur))
    env.log.append(('truncate', printable(comps_to_bytes(h['comps']))))
    return ok(UNIT)


@emodel('BufWriter::get_ref', 'BufWriter::get_mut', 'BufReader::get_ref', 'BufReader::get_mut')
def m_buf_get_ref(it, argv, text):
    w = it.deref_all(argv[0])
    return RefV(it.alloc(OpaqueV('File', w.data)))


# ----------------------------------------------------------------------------- spawn / wait / pipes (round 4)

PIPE_CAP = 65536          # capacity of a Linux pipe: a child writing more than this blocks until somebody reads


@emodel('Stdio::null', 'Stdio::piped', 'Stdio::inherit')
def m_stdio(it, argv, text):
    return OpaqueV('Stdio', text.rsplit('::', 1)[-1])


def _set_stdio(k):
    def f(it, argv, text):
        kind = it.deref_all(argv[1])
        kind = kind.data if isinstance(kind, OpaqueV) and kind.kind == 'Stdio' else 'inherit'
        return _cmd_update(it, argv[0], 4, lambda old: TupleV(tuple(kind if i == k else x for i, x in enumerate(old.f))))
    return f


MODELS['Command::stdin'] = _set_stdio(0)
MODELS['Command::stdout'] = _set_stdio(1)
MODELS['Command::stderr'] = _set_stdio(2)


@emodel('Command::spawn')
def m_command_spawn(it, argv, text):
    env = env_of(it)
    c = it.deref_all(argv[0])
    rec = {'exe': c.f[0], 'cwd': None if c.f[1].idx == 0 else c.f[1].f[0], 'args': list(c.f[2].e),
           'env': [(kv.f[0], kv.f[1]) for kv in c.f[3].e]}
    env.commands.append(rec)
    if env.proc_handler is None:
        raise Unsupported("a command was spawned but the harness installed no process model")
    res = env.proc_handler(it, rec)
    if res is None:
        return err(io_error('NotFound'))
    code, out, errb = res
    if not hasattr(env, 'pipes'):
        env.pipes = {}
    stdio = c.f[4].f if len(c.f) > 4 else ('inherit',) * 3
    fields = [OpaqueV('Process', len(env.pipes)), NONE]
    pid = len(env.pipes)
    for k, data in ((1, out), (2, errb)):
        if stdio[k] == 'piped':
            pk = (pid, k)
            env.pipes[pk] = {'data': tuple(data), 'pos': 0}
            fields.append(some(OpaqueV('Pipe', pk)))
        else:
            fields.append(NONE)
    env.children = getattr(env, 'children', {})
    env.children[pid] = {'code': code, 'pipes': [pk for pk in ((pid, 1), (pid, 2)) if pk in env.pipes]}
    return ok(StructV('Child', tuple(fields)))


def _child(it, v):
    env = env_of(it)
    ch = it.deref_all(v)
    return env, ch, env.children[ch.f[0].data]


@emodel('Child::wait')
def m_child_wait(it, argv, text):
    env, ch, st = _child(it, argv[0])
    for pk in st['pipes']:
        p = env.pipes[pk]
        if len(p['data']) - p['pos'] > PIPE_CAP:
            # the child blocks in write(2) on the full pipe and never exits; wait() never returns
            raise RustPanic("hang: Child::wait() while the child still has %d bytes to write into a pipe nobody reads (capacity %d)"
                            % (len(p['data']) - p['pos'], PIPE_CAP))
    return ok(OpaqueV('ExitStatus', st['code']))


@emodel('Child::wait_with_output')
def m_child_wait_with_output(it, argv, text):
    env = env_of(it)
    ch = it.deref_all(argv[0])
    st = env.children[ch.f[0].data]
    bufs = []
    for k in (1, 2):
        pk = (ch.f[0].data, k)
        bufs.append(VecV(tuple(env.pipes[pk]['data'])) if pk in env.pipes else VecV(()))
    return ok(StructV('Output', (OpaqueV('ExitStatus', st['code']), bufs[0], bufs[1])))
