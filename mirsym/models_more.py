"""Second batch of std models: generic patterns, char/byte iterators and the usual combinators.

The code under test may be *changed*; a realistic change uses other std APIs than the pinned tree does,
so the model set deliberately covers the common str / char / slice / Iterator / Option / Result surface,
not only what today's MIR calls.
"""
import re
from .values import *
from .core import (Unsupported, RustPanic, is_sym, t_eq, t_not, t_and, t_or, t_in, t_bytes_eq)
from .interp import BoolT, base_type, strip_generics
from . import models_std as S
from .models_std import (model, truth, bytes_eq, next_char, prev_char, is_boundary, char_pred, find_sub, iter_next, drain,
                         value_eq, WS_ASCII, WS_UNICODE)


# ----------------------------------------------------------------------------- patterns

def char_bytes(c):
    if isinstance(c, CharV):
        return (c.b,)
    return tuple(chr(c).encode())


def char_eq(it, a, b):
    """equality of two char values (int codepoints or CharV) -> Python bool"""
    if isinstance(a, CharV) or isinstance(b, CharV):
        ab, bb = char_bytes(a), char_bytes(b)
        if len(ab) != len(bb):
            return False
        return bytes_eq(it, ab, bb, 'chareq')
    return a == b


def pat_kind(it, pat):
    pv = it.deref_all(pat)
    if isinstance(pv, (ClosureV, FnV)):
        return 'pred', pat
    if isinstance(pv, (int, CharV)) and not isinstance(pv, bool):
        return 'char', pv
    if isinstance(pv, StrV):
        return 'str', pv.b
    if isinstance(pv, (VecV, SliceV)):
        return 'chars', tuple(it.deref_all(x) for x in it.as_seq(pv))
    raise Unsupported("pattern %r" % (pv,))


def match_at(it, s, i, kind, p):
    """length of the match of pattern at byte offset i (a char boundary), or None"""
    if kind == 'str':
        if i + len(p) > len(s):
            return None
        return len(p) if bytes_eq(it, s[i:i + len(p)], p, 'pat') else None
    if i >= len(s):
        return None
    c, w = next_char(it, s, i)
    if kind == 'char':
        return w if char_eq(it, c, p) else None
    if kind == 'pred':
        return w if char_pred(it, p, c) else None
    if kind == 'chars':
        for x in p:
            if char_eq(it, c, x):
                return w
        return None
    raise Unsupported(kind)


def boundaries(it, s):
    out = []
    i = 0
    while i < len(s):
        out.append(i)
        _, w = next_char(it, s, i)
        i += w
    out.append(len(s))
    return out


def pat_find(it, s, kind, p, start=0):
    """first (pos, len) of a match at or after start"""
    if kind == 'str':
        if len(p) == 0:
            return (start, 0)
        r = find_sub(it, s[start:], p)
        return None if r is None else (start + r, len(p))
    i = start
    while i < len(s):
        m = match_at(it, s, i, kind, p)
        if m is not None:
            return (i, m)
        _, w = next_char(it, s, i)
        i += w
    return None


def pat_rfind(it, s, kind, p):
    if kind == 'str':
        n, m = len(s), len(p)
        for i in range(n - m, -1, -1):
            if is_boundary(s, i) and bytes_eq(it, s[i:i + m], p, 'rfind'):
                return (i, m)
        return None
    bs = boundaries(it, s)
    for i in reversed(bs[:-1]):
        m = match_at(it, s, i, kind, p)
        if m is not None:
            return (i, m)
    return None


def pat_split(it, s, kind, p, limit=None):
    parts = []
    start = 0
    pos = 0
    while True:
        if limit is not None and len(parts) == limit - 1:
            break
        r = pat_find(it, s, kind, p, pos)
        if r is None:
            break
        i, m = r
        parts.append(StrV(s[start:i]))
        start = i + m
        pos = start
        if m == 0:
            if pos >= len(s):
                break
            _, w = next_char(it, s, pos)
            pos += w
    parts.append(StrV(s[start:]))
    return parts


@model('str::find')
def m_find(it, argv, text):
    s = it.as_str(argv[0]).b
    kind, p = pat_kind(it, argv[1])
    r = pat_find(it, s, kind, p)
    return NONE if r is None else some(r[0])


@model('str::rfind')
def m_rfind(it, argv, text):
    s = it.as_str(argv[0]).b
    kind, p = pat_kind(it, argv[1])
    r = pat_rfind(it, s, kind, p)
    return NONE if r is None else some(r[0])


@model('str::contains')
def m_contains(it, argv, text):
    s = it.as_str(argv[0]).b
    kind, p = pat_kind(it, argv[1])
    return pat_find(it, s, kind, p) is not None


@model('str::starts_with')
def m_starts_with(it, argv, text):
    s = it.as_str(argv[0]).b
    kind, p = pat_kind(it, argv[1])
    return match_at(it, s, 0, kind, p) is not None


@model('str::ends_with')
def m_ends_with(it, argv, text):
    s = it.as_str(argv[0]).b
    kind, p = pat_kind(it, argv[1])
    if kind == 'str':
        if len(p) > len(s):
            return False
        return bytes_eq(it, s[len(s) - len(p):], p, 'ends_with')
    if not s:
        return False
    c, w = prev_char(it, s, len(s))
    return match_at(it, s, len(s) - w, kind, p) is not None


@model('str::split_once')
def m_split_once(it, argv, text):
    s = it.as_str(argv[0]).b
    kind, p = pat_kind(it, argv[1])
    r = pat_find(it, s, kind, p)
    if r is None:
        return NONE
    return some(TupleV((StrV(s[:r[0]]), StrV(s[r[0] + r[1]:]))))


@model('str::rsplit_once')
def m_rsplit_once(it, argv, text):
    s = it.as_str(argv[0]).b
    kind, p = pat_kind(it, argv[1])
    r = pat_rfind(it, s, kind, p)
    if r is None:
        return NONE
    return some(TupleV((StrV(s[:r[0]]), StrV(s[r[0] + r[1]:]))))


@model('str::split')
def m_split(it, argv, text):
    s = it.as_str(argv[0]).b
    kind, p = pat_kind(it, argv[1])
    return IterV('list', (tuple(pat_split(it, s, kind, p)), 0))


@model('str::splitn')
def m_splitn(it, argv, text):
    s = it.as_str(argv[0]).b
    kind, p = pat_kind(it, argv[2])
    if argv[1] == 0:
        return IterV('list', ((), 0))
    return IterV('list', (tuple(pat_split(it, s, kind, p, argv[1])), 0))


@model('str::split_terminator')
def m_split_terminator(it, argv, text):
    s = it.as_str(argv[0]).b
    kind, p = pat_kind(it, argv[1])
    parts = pat_split(it, s, kind, p)
    if parts and len(parts[-1].b) == 0:
        parts = parts[:-1]
    return IterV('list', (tuple(parts), 0))


@model('str::split_inclusive')
def m_split_inclusive(it, argv, text):
    s = it.as_str(argv[0]).b
    kind, p = pat_kind(it, argv[1])
    parts = []
    start = 0
    while True:
        r = pat_find(it, s, kind, p, start)
        if r is None:
            break
        parts.append(StrV(s[start:r[0] + r[1]]))
        start = r[0] + r[1]
    if start < len(s):
        parts.append(StrV(s[start:]))
    return IterV('list', (tuple(parts), 0))


def _trim_pat(it, s, kind, p, front, back):
    i, j = 0, len(s)
    if front:
        while i < j:
            m = match_at(it, s[:j], i, kind, p)
            if m is None or m == 0:
                break
            i += m
    if back:
        while j > i:
            if kind == 'str':
                if j - len(p) < i or len(p) == 0 or not bytes_eq(it, s[j - len(p):j], p, 'trimend'):
                    break
                j -= len(p)
            else:
                c, w = prev_char(it, s, j)
                if match_at(it, s, j - w, kind, p) is None:
                    break
                j -= w
    return StrV(s[i:j])


@model('str::trim_matches')
def m_trim_matches(it, argv, text):
    s = it.as_str(argv[0]).b
    kind, p = pat_kind(it, argv[1])
    return _trim_pat(it, s, kind, p, True, True)


@model('str::trim_end_matches', 'str::trim_right_matches')
def m_trim_end_matches(it, argv, text):
    s = it.as_str(argv[0]).b
    kind, p = pat_kind(it, argv[1])
    return _trim_pat(it, s, kind, p, False, True)


@model('str::trim_start_matches', 'str::trim_left_matches')
def m_trim_start_matches(it, argv, text):
    s = it.as_str(argv[0]).b
    kind, p = pat_kind(it, argv[1])
    return _trim_pat(it, s, kind, p, True, False)


@model('str::strip_prefix')
def m_strip_prefix(it, argv, text):
    s = it.as_str(argv[0]).b
    kind, p = pat_kind(it, argv[1])
    m = match_at(it, s, 0, kind, p)
    return NONE if m is None else some(StrV(s[m:]))


@model('str::strip_suffix')
def m_strip_suffix(it, argv, text):
    s = it.as_str(argv[0]).b
    kind, p = pat_kind(it, argv[1])
    if kind == 'str':
        if len(p) <= len(s) and bytes_eq(it, s[len(s) - len(p):], p, 'strip_suffix'):
            return some(StrV(s[:len(s) - len(p)]))
        return NONE
    if not s:
        return NONE
    c, w = prev_char(it, s, len(s))
    if match_at(it, s, len(s) - w, kind, p) is not None:
        return some(StrV(s[:len(s) - w]))
    return NONE


@model('str::replace')
def m_replace(it, argv, text):
    s = it.as_str(argv[0]).b
    kind, p = pat_kind(it, argv[1])
    to = it.as_str(argv[2]).b
    parts = pat_split(it, s, kind, p)
    out = []
    for i, x in enumerate(parts):
        if i:
            out.extend(to)
        out.extend(x.b)
    return StrV(tuple(out))


@model('str::is_char_boundary')
def m_is_char_boundary(it, argv, text):
    s = it.as_str(argv[0]).b
    return argv[1] <= len(s) and is_boundary(s, argv[1])


@model('str::get')
def m_str_get(it, argv, text):
    try:
        return some(S.m_str_index(it, argv, text))
    except RustPanic:
        return NONE


@model('str::chars')
def m_chars(it, argv, text):
    s = it.as_str(argv[0]).b
    out = []
    i = 0
    while i < len(s):
        c, w = next_char(it, s, i)
        out.append(c)
        i += w
    return IterV('list', (tuple(out), 0))


@model('str::char_indices')
def m_char_indices(it, argv, text):
    s = it.as_str(argv[0]).b
    out = []
    i = 0
    while i < len(s):
        c, w = next_char(it, s, i)
        out.append(TupleV((i, c)))
        i += w
    return IterV('list', (tuple(out), 0))


@model('str::bytes')
def m_bytes(it, argv, text):
    return IterV('list', (tuple(it.as_str(argv[0]).b), 0))


@model('str::eq_ignore_ascii_case')
def m_eq_ignore_case(it, argv, text):
    a, b = it.as_str(argv[0]).b, it.as_str(argv[1]).b
    if any(is_sym(x) for x in a + b):
        raise Unsupported("eq_ignore_ascii_case on symbolic bytes")
    return bytes(a).lower() == bytes(b).lower()


@model('str::to_lowercase', 'str::to_ascii_lowercase')
def m_to_lower(it, argv, text):
    a = it.as_str(argv[0]).b
    if any(is_sym(x) for x in a):
        raise Unsupported("to_lowercase on symbolic bytes")
    return str_of(bytes(a).decode().lower())


@model('str::to_uppercase', 'str::to_ascii_uppercase')
def m_to_upper(it, argv, text):
    a = it.as_str(argv[0]).b
    if any(is_sym(x) for x in a):
        raise Unsupported("to_uppercase on symbolic bytes")
    return str_of(bytes(a).decode().upper())


@model('String::insert_str')
def m_insert_str(it, argv, text):
    r = argv[0]
    s = it.load(r.addr).b
    i = argv[1]
    if i > len(s) or not is_boundary(s, i):
        raise RustPanic("insert_str: not a char boundary")
    it.store(r.addr, StrV(s[:i] + it.as_str(argv[2]).b + s[i:]))
    return UNIT


@model('String::pop')
def m_string_pop(it, argv, text):
    r = argv[0]
    s = it.load(r.addr).b
    if not s:
        return NONE
    c, w = prev_char(it, s, len(s))
    it.store(r.addr, StrV(s[:len(s) - w]))
    return some(c)


@model('String::truncate')
def m_string_truncate(it, argv, text):
    r = argv[0]
    s = it.load(r.addr).b
    n = argv[1]
    if n <= len(s):
        if not is_boundary(s, n):
            raise RustPanic("truncate: not a char boundary")
        it.store(r.addr, StrV(s[:n]))
    return UNIT


@model('String::clear')
def m_string_clear(it, argv, text):
    it.store(argv[0].addr, StrV(()))
    return UNIT


@model('String::with_capacity', 'OsString::with_capacity', 'PathBuf::with_capacity')
def m_string_with_capacity(it, argv, text):
    return StrV(())


@model('String::reserve', 'Vec::reserve', 'String::shrink_to_fit', 'Vec::shrink_to_fit')
def m_reserve(it, argv, text):
    return UNIT


@model('String::into_bytes', 'String::into_boxed_str')
def m_into_bytes(it, argv, text):
    s = it.as_str(argv[0])
    return VecV(s.b) if 'into_bytes' in text else s


@model('String::from_utf8')
def m_from_utf8(it, argv, text):
    bs = tuple(it.as_seq(argv[0])) if not isinstance(it.deref_all(argv[0]), StrV) else it.deref_all(argv[0]).b
    from .models_env import valid_utf8
    if valid_utf8(it, bs):
        return ok(StrV(bs))
    return err(OpaqueV('FromUtf8Error'))


@model('from_utf8')
def m_str_from_utf8(it, argv, text):
    return m_from_utf8(it, argv, text)


@model('str::parse')
def m_parse(it, argv, text):
    s = it.as_str(argv[0]).b
    if any(is_sym(x) for x in s):
        raise Unsupported("parse of symbolic string")
    try:
        return ok(int(bytes(s).decode()))
    except ValueError:
        return err(OpaqueV('ParseIntError'))


# ----------------------------------------------------------------------------- char / u8 predicates

def _cls(it, argv, asc_set, uni_pred):
    c = it.deref_all(argv[0])
    if isinstance(c, CharV):
        c = c.b
    if is_sym(c):
        t = t_in(c, frozenset(asc_set))
        return t if isinstance(t, bool) else BoolT(t)
    if c < 128:
        return c in asc_set
    return uni_pred(chr(c)) if uni_pred else False


_DIG = set(range(48, 58))
_UP = set(range(65, 91))
_LO = set(range(97, 123))
_AL = _UP | _LO
_PUNCT = set(range(33, 48)) | set(range(58, 65)) | set(range(91, 97)) | set(range(123, 127))


@model('char::is_ascii_whitespace', 'u8::is_ascii_whitespace')
def m_is_ascii_ws(it, argv, text):
    return _cls(it, argv, {9, 10, 12, 13, 32}, None)


@model('char::is_ascii', 'u8::is_ascii')
def m_is_ascii(it, argv, text):
    return _cls(it, argv, set(range(128)), None)


@model('char::is_alphabetic')
def m_is_alpha(it, argv, text):
    return _cls(it, argv, _AL, str.isalpha)


@model('char::is_alphanumeric')
def m_is_alnum(it, argv, text):
    return _cls(it, argv, _AL | _DIG, str.isalnum)


@model('char::is_numeric')
def m_is_numeric(it, argv, text):
    return _cls(it, argv, _DIG, str.isnumeric)


@model('char::is_ascii_digit', 'u8::is_ascii_digit')
def m_is_ascii_digit(it, argv, text):
    return _cls(it, argv, _DIG, None)


@model('char::is_ascii_alphabetic', 'u8::is_ascii_alphabetic')
def m_is_ascii_alpha(it, argv, text):
    return _cls(it, argv, _AL, None)


@model('char::is_ascii_alphanumeric', 'u8::is_ascii_alphanumeric')
def m_is_ascii_alnum(it, argv, text):
    return _cls(it, argv, _AL | _DIG, None)


@model('char::is_ascii_punctuation', 'u8::is_ascii_punctuation')
def m_is_ascii_punct(it, argv, text):
    return _cls(it, argv, _PUNCT, None)


@model('char::is_ascii_uppercase', 'u8::is_ascii_uppercase')
def m_is_ascii_upper(it, argv, text):
    return _cls(it, argv, _UP, None)


@model('char::is_ascii_lowercase', 'u8::is_ascii_lowercase')
def m_is_ascii_lower(it, argv, text):
    return _cls(it, argv, _LO, None)


@model('char::is_control', 'char::is_ascii_control', 'u8::is_ascii_control')
def m_is_control(it, argv, text):
    return _cls(it, argv, set(range(32)) | {127}, lambda ch: 0x80 <= ord(ch) < 0xA0)


@model('char::is_ascii_graphic', 'u8::is_ascii_graphic')
def m_is_graphic(it, argv, text):
    return _cls(it, argv, set(range(33, 127)), None)


@model('char::len_utf8')
def m_len_utf8(it, argv, text):
    c = it.deref_all(argv[0])
    return len(char_bytes(c))


@model('char::eq', '<char as PartialEq>::eq')
def m_char_eq(it, argv, text):
    return char_eq(it, it.deref_all(argv[0]), it.deref_all(argv[1]))


@model('<char as PartialEq>::ne')
def m_char_ne(it, argv, text):
    return not char_eq(it, it.deref_all(argv[0]), it.deref_all(argv[1]))


# ----------------------------------------------------------------------------- slices / Vec (more)

@model('Vec::pop')
def m_vec_pop(it, argv, text):
    r = argv[0]
    v = it.load(r.addr)
    if not v.e:
        return NONE
    it.store(r.addr, VecV(v.e[:-1]))
    return some(v.e[-1])


@model('Vec::clear', 'HashMap::clear', 'HashSet::clear')
def m_vec_clear(it, argv, text):
    v = it.load(argv[0].addr)
    it.store(argv[0].addr, VecV(()) if isinstance(v, VecV) else MapV((), v.is_set))
    return UNIT


@model('Vec::truncate')
def m_vec_truncate(it, argv, text):
    v = it.load(argv[0].addr)
    it.store(argv[0].addr, VecV(v.e[:argv[1]]))
    return UNIT


@model('Vec::insert')
def m_vec_insert(it, argv, text):
    v = it.load(argv[0].addr)
    i = argv[1]
    if i > len(v.e):
        raise RustPanic("insertion index out of bounds")
    it.store(argv[0].addr, VecV(v.e[:i] + (argv[2],) + v.e[i:]))
    return UNIT


@model('Vec::remove')
def m_vec_remove(it, argv, text):
    v = it.load(argv[0].addr)
    i = argv[1]
    if i >= len(v.e):
        raise RustPanic("removal index out of bounds")
    it.store(argv[0].addr, VecV(v.e[:i] + v.e[i + 1:]))
    return v.e[i]


@model('Vec::retain')
def m_vec_retain(it, argv, text):
    v = it.load(argv[0].addr)
    keep = []
    for x in v.e:
        if truth(it, it.call_value(argv[1], [RefV(it.alloc(x))])):
            keep.append(x)
    it.store(argv[0].addr, VecV(tuple(keep)))
    return UNIT


@model('Vec::extend_from_slice')
def m_extend_from_slice(it, argv, text):
    v = it.load(argv[0].addr)
    src = it.deref_all(argv[1])
    add = src.b if isinstance(src, StrV) else tuple(it.as_seq(argv[1]))
    it.store(argv[0].addr, VecV(v.e + tuple(add)))
    return UNIT


@model('Vec::append')
def m_vec_append(it, argv, text):
    v = it.load(argv[0].addr)
    o = it.load(argv[1].addr)
    it.store(argv[0].addr, VecV(v.e + o.e))
    it.store(argv[1].addr, VecV(()))
    return UNIT


@model('slice::contains', 'Vec::contains')
def m_slice_contains(it, argv, text):
    for x in _seq_vals(it, argv[0]):
        if value_eq(it, x, argv[1]):
            return True
    return False


def _seq_vals(it, v):
    d = it.deref_all(v)
    if isinstance(d, StrV):
        return d.b
    return it.as_seq(v)


@model('slice::get', 'Vec::get')
def m_slice_get(it, argv, text):
    idx = argv[1]
    try:
        r = S.m_vec_index(it, argv, text)
    except RustPanic:
        return NONE
    return some(r)


@model('slice::starts_with')
def m_slice_starts_with(it, argv, text):
    a, b = _seq_vals(it, argv[0]), _seq_vals(it, argv[1])
    if len(b) > len(a):
        return False
    return all(value_eq(it, x, y) for x, y in zip(a, b))


@model('slice::ends_with')
def m_slice_ends_with(it, argv, text):
    a, b = _seq_vals(it, argv[0]), _seq_vals(it, argv[1])
    if len(b) > len(a):
        return False
    return all(value_eq(it, x, y) for x, y in zip(a[len(a) - len(b):], b))


@model('slice::split_first')
def m_split_first(it, argv, text):
    refs = it.seq_elem_refs(argv[0])
    if not refs:
        return NONE
    return some(TupleV((refs[0], VecV(tuple(it.deref_all(r) for r in refs[1:])))))


@model('slice::split_last')
def m_split_last(it, argv, text):
    refs = it.seq_elem_refs(argv[0])
    if not refs:
        return NONE
    return some(TupleV((refs[-1], VecV(tuple(it.deref_all(r) for r in refs[:-1])))))


@model('slice::sort', 'Vec::sort', 'slice::sort_unstable', 'Vec::sort_unstable')
def m_sort(it, argv, text):
    s = argv[0]
    if isinstance(s, RefV):
        inner = it.load(s.addr)
        s = SliceV(s.addr, 0, len(inner.e))
    base = it.load(s.addr)
    elems = list(base.e[s.start:s.end])
    if not all(isinstance(x, int) for x in elems):
        if all(isinstance(x, StrV) and all(isinstance(b, int) for b in x.b) for x in elems):
            elems.sort(key=lambda x: bytes(x.b))
        else:
            raise Unsupported("sort of non-integer elements")
    else:
        elems.sort()
    it.store(s.addr, VecV(base.e[:s.start] + tuple(elems) + base.e[s.end:]))
    return UNIT


@model('slice::sort_by_key', 'Vec::sort_by_key')
def m_sort_by_key(it, argv, text):
    s = argv[0]
    if isinstance(s, RefV):
        inner = it.load(s.addr)
        s = SliceV(s.addr, 0, len(inner.e))
    base = it.load(s.addr)
    elems = list(base.e[s.start:s.end])
    keys = [it.call_value(argv[1], [RefV(it.alloc(x))]) for x in elems]
    if not all(isinstance(k, int) for k in keys):
        raise Unsupported("sort_by_key with non-integer keys")
    order = sorted(range(len(elems)), key=lambda i: keys[i])
    it.store(s.addr, VecV(base.e[:s.start] + tuple(elems[i] for i in order) + base.e[s.end:]))
    return UNIT


@model('slice::reverse', 'Vec::reverse')
def m_reverse(it, argv, text):
    s = argv[0]
    if isinstance(s, RefV):
        inner = it.load(s.addr)
        s = SliceV(s.addr, 0, len(inner.e))
    base = it.load(s.addr)
    it.store(s.addr, VecV(base.e[:s.start] + tuple(reversed(base.e[s.start:s.end])) + base.e[s.end:]))
    return UNIT


@model('Vec::dedup')
def m_dedup(it, argv, text):
    v = it.load(argv[0].addr)
    out = []
    for x in v.e:
        if out and value_eq(it, out[-1], x):
            continue
        out.append(x)
    it.store(argv[0].addr, VecV(tuple(out)))
    return UNIT


@model('Vec::drain')
def m_vec_drain(it, argv, text):
    v = it.load(argv[0].addr)
    r = argv[1]
    n = len(v.e)
    if r.name == 'RangeFull':
        a, b = 0, n
    elif r.name == 'RangeTo':
        a, b = 0, r.f[0]
    elif r.name == 'RangeFrom':
        a, b = r.f[0], n
    else:
        a, b = r.f
    if a > b or b > n:
        raise RustPanic("drain range out of bounds")
    it.store(argv[0].addr, VecV(v.e[:a] + v.e[b:]))
    return IterV('list', (v.e[a:b], 0))


# by-value byte slices (str::as_bytes) need by-value indexing
_orig_vec_index = S.m_vec_index


@model('<Vec as Index>::index', '<slice as Index>::index', '<Vec as IndexMut>::index_mut', 'Index::index', 'IndexMut::index_mut')
def m_vec_index2(it, argv, text):
    base = argv[0]
    d = base
    while isinstance(d, RefV) and isinstance(it.load(d.addr), (RefV,)):
        d = it.load(d.addr)
    bv = it.deref_all(d)
    if isinstance(bv, StrV) and 'str' not in text.split(' as ')[0] and 'String' not in text.split(' as ')[0]:
        bv = VecV(bv.b)
        d = bv
    if isinstance(d, VecV):
        idx = argv[1]
        n = len(d.e)
        if isinstance(idx, int):
            if not 0 <= idx < n:
                raise RustPanic("index out of bounds: the len is %d but the index is %d" % (n, idx))
            return RefV(it.alloc(d.e[idx]))
        if idx.name == 'RangeTo':
            a, b = 0, idx.f[0]
        elif idx.name == 'RangeFrom':
            a, b = idx.f[0], n
        elif idx.name == 'RangeFull':
            a, b = 0, n
        elif idx.name == 'RangeInclusive':
            a, b = idx.f[0], idx.f[1] + 1
        elif idx.name == 'RangeToInclusive':
            a, b = 0, idx.f[0] + 1
        else:
            a, b = idx.f
        if a > b or b > n:
            raise RustPanic("range end index %d out of range for slice of length %d" % (b, n))
        return VecV(d.e[a:b])
    if isinstance(bv, StrV):
        return S.m_str_index(it, argv, text)
    if isinstance(bv, MapV):
        i = S.map_find(it, bv, it.deref_all(argv[1]))
        if i is None:
            raise RustPanic("HashMap index: key not found")
        r = argv[0]
        while isinstance(it.load(r.addr), RefV):
            r = it.load(r.addr)
        return RefV(Addr(r.addr.root, r.addr.proj + (('i', i), ('f', 1))))
    return _orig_vec_index(it, [d if isinstance(d, (RefV, SliceV)) else base, argv[1]], text)


# ----------------------------------------------------------------------------- iterator adaptors / consumers

def _iter_arg(it, v):
    if isinstance(v, RefV):
        return it.load(v.addr), v
    return v, None


def _advance(it, v, n_fn):
    iv, ref = _iter_arg(it, v)
    res, iv2 = n_fn(iv)
    if ref is not None:
        it.store(ref.addr, iv2)
    return res


@model('Iterator::rev')
def m_rev(it, argv, text):
    iv = argv[0]
    if iv.kind == 'list':
        items, pos = iv.data
        return IterV('list', (tuple(reversed(items[pos:])), 0))
    return IterV('list', (tuple(reversed(drain(it, iv))), 0))


@model('DoubleEndedIterator::next_back')
def m_next_back(it, argv, text):
    r = argv[0]
    iv = it.load(r.addr)
    if iv.kind != 'list':
        items = tuple(drain(it, iv))
        iv = IterV('list', (items, 0))
    items, pos = iv.data
    if pos >= len(items):
        return NONE
    it.store(r.addr, IterV('list', (items[:-1], pos)))
    return some(items[-1])


@model('Iterator::count')
def m_count(it, argv, text):
    return len(drain(it, argv[0]))


@model('Iterator::last')
def m_iter_last(it, argv, text):
    xs = drain(it, argv[0])
    return some(xs[-1]) if xs else NONE


@model('Iterator::nth')
def m_nth(it, argv, text):
    r = argv[0]
    iv = it.load(r.addr)
    x = None
    for _ in range(argv[1] + 1):
        x, iv = iter_next(it, iv)
        if x is None:
            break
    it.store(r.addr, iv)
    return NONE if x is None else some(x)


def _consume_ref(it, argv):
    """iterator consumers take `&mut self` (all/any/position/find) or self"""
    v = argv[0]
    if isinstance(v, RefV):
        return it.load(v.addr), v
    return v, None


@model('Iterator::all')
def m_all(it, argv, text):
    iv, ref = _consume_ref(it, argv)
    res = True
    while True:
        x, iv = iter_next(it, iv)
        if x is None:
            break
        if not truth(it, _call_item(it, argv[1], x)):
            res = False
            break
    if ref is not None:
        it.store(ref.addr, iv)
    return res


@model('Iterator::any')
def m_any(it, argv, text):
    iv, ref = _consume_ref(it, argv)
    res = False
    while True:
        x, iv = iter_next(it, iv)
        if x is None:
            break
        if truth(it, _call_item(it, argv[1], x)):
            res = True
            break
    if ref is not None:
        it.store(ref.addr, iv)
    return res


def _call_item(it, f, x):
    """call a predicate on an iterator item; fn items such as u8::is_ascii_whitespace expect a reference"""
    fv = it.deref_all(f)
    if isinstance(fv, FnV) and not isinstance(x, RefV) and re.search(r'is_ascii|is_', fv.name):
        return it.call_value(f, [x])
    return it.call_value(f, [x])


@model('Iterator::position')
def m_position(it, argv, text):
    iv, ref = _consume_ref(it, argv)
    i = 0
    res = NONE
    while True:
        x, iv = iter_next(it, iv)
        if x is None:
            break
        if truth(it, it.call_value(argv[1], [x])):
            res = some(i)
            break
        i += 1
    if ref is not None:
        it.store(ref.addr, iv)
    return res


@model('Iterator::find')
def m_iter_find(it, argv, text):
    iv, ref = _consume_ref(it, argv)
    res = NONE
    while True:
        x, iv = iter_next(it, iv)
        if x is None:
            break
        if truth(it, it.call_value(argv[1], [RefV(it.alloc(x))])):
            res = some(x)
            break
    if ref is not None:
        it.store(ref.addr, iv)
    return res


@model('Iterator::find_map')
def m_find_map(it, argv, text):
    iv, ref = _consume_ref(it, argv)
    res = NONE
    while True:
        x, iv = iter_next(it, iv)
        if x is None:
            break
        r = it.call_value(argv[1], [x])
        if r.idx == 1:
            res = r
            break
    if ref is not None:
        it.store(ref.addr, iv)
    return res


@model('Iterator::take')
def m_take(it, argv, text):
    xs = []
    iv = argv[0]
    for _ in range(argv[1]):
        x, iv = iter_next(it, iv)
        if x is None:
            break
        xs.append(x)
    return IterV('list', (tuple(xs), 0))


@model('Iterator::take_while')
def m_take_while(it, argv, text):
    xs = []
    iv = argv[0]
    while True:
        x, iv = iter_next(it, iv)
        if x is None:
            break
        if not truth(it, it.call_value(argv[1], [RefV(it.alloc(x))])):
            break
        xs.append(x)
    return IterV('list', (tuple(xs), 0))


@model('Iterator::skip_while')
def m_skip_while(it, argv, text):
    xs = drain(it, argv[0])
    k = 0
    while k < len(xs) and truth(it, it.call_value(argv[1], [RefV(it.alloc(xs[k]))])):
        k += 1
    return IterV('list', (tuple(xs[k:]), 0))


@model('Iterator::zip')
def m_zip(it, argv, text):
    a = drain(it, argv[0])
    b = drain(it, S.m_into_iter(it, [argv[1]], text))
    return IterV('list', (tuple(TupleV((x, y)) for x, y in zip(a, b)), 0))


@model('Iterator::chain')
def m_chain(it, argv, text):
    a = drain(it, argv[0])
    b = drain(it, S.m_into_iter(it, [argv[1]], text))
    return IterV('list', (tuple(a + b), 0))


@model('Iterator::fold')
def m_fold(it, argv, text):
    acc = argv[1]
    for x in drain(it, argv[0]):
        acc = it.call_value(argv[2], [acc, x])
    return acc


@model('Iterator::for_each')
def m_for_each(it, argv, text):
    for x in drain(it, argv[0]):
        it.call_value(argv[1], [x])
    return UNIT


@model('Iterator::sum')
def m_sum(it, argv, text):
    return sum(it.deref_all(x) for x in drain(it, argv[0]))


@model('Iterator::max', 'Iterator::min')
def m_iter_minmax(it, argv, text):
    xs = [it.deref_all(x) for x in drain(it, argv[0])]
    if not xs:
        return NONE
    return some(max(xs) if text.endswith('max') else min(xs))


@model('Iterator::peekable', 'Iterator::fuse', 'Iterator::by_ref')
def m_iter_identity(it, argv, text):
    return argv[0]


@model('Iterator::flatten', 'Iterator::flat_map')
def m_flatten(it, argv, text):
    out = []
    for x in drain(it, argv[0]):
        if len(argv) > 1:
            x = it.call_value(argv[1], [x])
        out.extend(drain(it, S.m_into_iter(it, [x], text)))
    return IterV('list', (tuple(out), 0))


@model('Iterator::inspect')
def m_inspect(it, argv, text):
    return argv[0]


@model('Iterator::unzip')
def m_unzip(it, argv, text):
    xs = drain(it, argv[0])
    return TupleV((VecV(tuple(x.f[0] for x in xs)), VecV(tuple(x.f[1] for x in xs))))


@model('Iterator::eq')
def m_iter_eq(it, argv, text):
    a = drain(it, argv[0])
    b = drain(it, S.m_into_iter(it, [argv[1]], text))
    return len(a) == len(b) and all(value_eq(it, x, y) for x, y in zip(a, b))


@model('Iterator::size_hint')
def m_size_hint(it, argv, text):
    return TupleV((0, NONE))


@model('ExactSizeIterator::len')
def m_iter_len(it, argv, text):
    iv = it.deref_all(argv[0])
    if iv.kind == 'list':
        return len(iv.data[0]) - iv.data[1]
    raise Unsupported("len of iterator " + iv.kind)


# ----------------------------------------------------------------------------- Option / Result / bool (more)

@model('Option::and_then')
def m_opt_and_then(it, argv, text):
    v = argv[0]
    return v if v.idx == 0 else it.call_value(argv[1], [v.f[0]])


@model('Option::filter')
def m_opt_filter(it, argv, text):
    v = argv[0]
    if v.idx == 0:
        return v
    return v if truth(it, it.call_value(argv[1], [RefV(it.alloc(v.f[0]))])) else NONE


@model('Option::map_or')
def m_opt_map_or(it, argv, text):
    v = argv[0]
    return argv[1] if v.idx == 0 else it.call_value(argv[2], [v.f[0]])


@model('Option::map_or_else')
def m_opt_map_or_else(it, argv, text):
    v = argv[0]
    return it.call_value(argv[1], []) if v.idx == 0 else it.call_value(argv[2], [v.f[0]])


@model('Option::is_some_and')
def m_is_some_and(it, argv, text):
    v = argv[0]
    return v.idx == 1 and truth(it, it.call_value(argv[1], [v.f[0]]))


@model('Option::is_none_or')
def m_is_none_or(it, argv, text):
    v = argv[0]
    return v.idx == 0 or truth(it, it.call_value(argv[1], [v.f[0]]))


@model('Option::or')
def m_opt_or(it, argv, text):
    return argv[0] if argv[0].idx == 1 else argv[1]


@model('Option::or_else')
def m_opt_or_else(it, argv, text):
    return argv[0] if argv[0].idx == 1 else it.call_value(argv[1], [])


@model('Option::and')
def m_opt_and(it, argv, text):
    return argv[1] if argv[0].idx == 1 else NONE


@model('Option::copied')
def m_opt_copied(it, argv, text):
    v = argv[0]
    return v if v.idx == 0 else some(it.deref_all(v.f[0]))


@model('Option::replace', 'Option::insert')
def m_opt_replace(it, argv, text):
    old = it.load(argv[0].addr)
    it.store(argv[0].addr, some(argv[1]))
    if text.endswith('insert'):
        return RefV(argv[0].addr.field(0))
    return old


@model('Option::get_or_insert_with')
def m_get_or_insert_with(it, argv, text):
    cur = it.load(argv[0].addr)
    if cur.idx == 0:
        it.store(argv[0].addr, some(it.call_value(argv[1], [])))
    return RefV(argv[0].addr.field(0))


@model('Option::zip')
def m_opt_zip(it, argv, text):
    a, b = argv
    if a.idx == 1 and b.idx == 1:
        return some(TupleV((a.f[0], b.f[0])))
    return NONE


@model('Option::flatten')
def m_opt_flatten(it, argv, text):
    v = argv[0]
    return v if v.idx == 0 else v.f[0]


@model('Option::iter', 'Option::into_iter', '<Option as IntoIterator>::into_iter')
def m_opt_iter(it, argv, text):
    v = it.deref_all(argv[0])
    return IterV('list', ((v.f[0],) if v.idx == 1 else (), 0))


@model('Result::map_or')
def m_res_map_or(it, argv, text):
    v = argv[0]
    return argv[1] if v.idx == 1 else it.call_value(argv[2], [v.f[0]])


@model('Result::map_or_else')
def m_res_map_or_else(it, argv, text):
    v = argv[0]
    return it.call_value(argv[1], [v.f[0]]) if v.idx == 1 else it.call_value(argv[2], [v.f[0]])


@model('Result::err')
def m_res_err(it, argv, text):
    v = argv[0]
    return some(v.f[0]) if v.idx == 1 else NONE


@model('Result::and')
def m_res_and(it, argv, text):
    return argv[1] if argv[0].idx == 0 else argv[0]


@model('Result::or')
def m_res_or(it, argv, text):
    return argv[0] if argv[0].idx == 0 else argv[1]


@model('Result::is_ok_and')
def m_is_ok_and(it, argv, text):
    v = argv[0]
    return v.idx == 0 and truth(it, it.call_value(argv[1], [v.f[0]]))


@model('Result::is_err_and')
def m_is_err_and(it, argv, text):
    v = argv[0]
    return v.idx == 1 and truth(it, it.call_value(argv[1], [v.f[0]]))


@model('Result::unwrap_err', 'Result::expect_err')
def m_unwrap_err(it, argv, text):
    v = argv[0]
    if v.idx == 1:
        return v.f[0]
    raise RustPanic("unwrap_err on Ok")


@model('Result::as_ref', 'Result::as_mut')
def m_res_as_ref(it, argv, text):
    r = argv[0]
    v = it.load(r.addr)
    return EnumV('Result', v.vname, v.idx, (RefV(r.addr.field(0)),))


@model('Result::ok_or', 'Result::transpose', 'Option::transpose')
def m_unsup(it, argv, text):
    raise Unsupported(text)


@model('Result::inspect_err', 'Result::inspect', 'Option::inspect')
def m_inspect_v(it, argv, text):
    return argv[0]


@model('bool::then')
def m_bool_then(it, argv, text):
    return some(it.call_value(argv[1], [])) if truth(it, argv[0]) else NONE


@model('bool::then_some')
def m_bool_then_some(it, argv, text):
    return some(argv[1]) if truth(it, argv[0]) else NONE


@model('drop', 'forget')
def m_mem_drop(it, argv, text):
    it.drop_value(argv[0]) if text.endswith('drop') or 'drop::<' in text else None
    return UNIT


@model('take')
def m_mem_take(it, argv, text):
    old = it.load(argv[0].addr)
    if isinstance(old, StrV):
        new = StrV(())
    elif isinstance(old, VecV):
        new = VecV(())
    elif isinstance(old, MapV):
        new = MapV((), old.is_set)
    elif isinstance(old, EnumV) and old.ename == 'Option':
        new = NONE
    elif isinstance(old, bool):
        new = False
    elif isinstance(old, int):
        new = 0
    else:
        raise Unsupported("mem::take of %r" % (old,))
    it.store(argv[0].addr, new)
    return old


@model('replace')
def m_mem_replace(it, argv, text):
    old = it.load(argv[0].addr)
    it.store(argv[0].addr, argv[1])
    return old


@model('swap')
def m_mem_swap(it, argv, text):
    a, b = it.load(argv[0].addr), it.load(argv[1].addr)
    it.store(argv[0].addr, b)
    it.store(argv[1].addr, a)
    return UNIT


# integers
@model('usize::checked_add', 'u64::checked_add')
def m_checked_add(it, argv, text):
    r = argv[0] + argv[1]
    return some(r) if r < 1 << 64 else NONE


@model('usize::saturating_add', 'u64::saturating_add')
def m_sat_add(it, argv, text):
    return min(argv[0] + argv[1], (1 << 64) - 1)


@model('usize::wrapping_sub', 'u64::wrapping_sub')
def m_wrap_sub(it, argv, text):
    return (argv[0] - argv[1]) & ((1 << 64) - 1)


@model('usize::wrapping_add', 'u64::wrapping_add')
def m_wrap_add(it, argv, text):
    return (argv[0] + argv[1]) & ((1 << 64) - 1)


@model('usize::abs_diff', 'u64::abs_diff')
def m_abs_diff(it, argv, text):
    return abs(argv[0] - argv[1])


@model('usize::pow', 'u64::pow')
def m_pow(it, argv, text):
    return argv[0] ** argv[1]


@model('<usize as From>::from', '<u64 as From>::from', '<u32 as From>::from', 'TryFrom::try_from', 'TryInto::try_into')
def m_int_from(it, argv, text):
    v = argv[0]
    if isinstance(v, bool):
        v = int(v)
    if 'try_' in text:
        return ok(v)
    return v


@model('HashSet::extend', 'HashMap::extend')
def m_set_extend(it, argv, text):
    r = argv[0]
    mv = it.load(r.addr)
    for x in drain(it, S.m_into_iter(it, [argv[1]], text)):
        if mv.is_set:
            mv = S.map_insert(it, mv, it.deref_all(x) if isinstance(x, RefV) else x, UNIT)[0]
        else:
            mv = S.map_insert(it, mv, x.f[0], x.f[1])[0]
    it.store(r.addr, mv)
    return UNIT


@model('HashSet::is_subset')
def m_is_subset(it, argv, text):
    a, b = it.deref_all(argv[0]), it.deref_all(argv[1])
    return all(S.map_find(it, b, kv.f[0]) is not None for kv in a.items)


@model('HashSet::drain', 'HashMap::drain')
def m_map_drain(it, argv, text):
    mv = it.load(argv[0].addr)
    it.store(argv[0].addr, MapV((), mv.is_set))
    return S.map_iter(it, mv, False)


@model('HashMap::retain', 'HashSet::retain')
def m_map_retain(it, argv, text):
    r = argv[0]
    mv = it.load(r.addr)
    keep = []
    for kv in mv.items:
        if mv.is_set:
            res = it.call_value(argv[1], [RefV(it.alloc(kv.f[0]))])
        else:
            res = it.call_value(argv[1], [RefV(it.alloc(kv.f[0])), RefV(it.alloc(kv.f[1]))])
        if truth(it, res):
            keep.append(kv)
    it.store(r.addr, MapV(tuple(keep), mv.is_set))
    return UNIT


@model('HashMap::remove_entry')
def m_remove_entry(it, argv, text):
    r = argv[0]
    mv = it.load(r.addr)
    i = S.map_find(it, mv, it.deref_all(argv[1]))
    if i is None:
        return NONE
    it.store(r.addr, MapV(mv.items[:i] + mv.items[i + 1:], mv.is_set))
    return some(mv.items[i])


@model('HashMap::into_keys', 'HashMap::into_values')
def m_into_keys(it, argv, text):
    mv = argv[0]
    k = 0 if text.endswith('keys') else 1
    return IterV('list', (tuple(kv.f[k] for kv in mv.items), 0))


@model('Entry::and_modify')
def m_and_modify(it, argv, text):
    ent = argv[0]
    addr, key, i = ent.f[0].data
    if i is not None:
        it.call_value(argv[1], [RefV(Addr(addr.root, addr.proj + (('i', i), ('f', 1))))])
    return ent


@model('Entry::key')
def m_entry_key(it, argv, text):
    ent = it.deref_all(argv[0])
    return RefV(it.alloc(ent.f[0].data[1]))


@model('str::rsplit')
def m_rsplit(it, argv, text):
    s = it.as_str(argv[0]).b
    kind, p = pat_kind(it, argv[1])
    return IterV('list', (tuple(reversed(pat_split(it, s, kind, p))), 0))


@model('str::rsplitn')
def m_rsplitn(it, argv, text):
    s = it.as_str(argv[0]).b
    kind, p = pat_kind(it, argv[2])
    n = argv[1]
    if n == 0:
        return IterV('list', ((), 0))
    parts = []
    end = len(s)
    while len(parts) < n - 1:
        r = pat_rfind(it, s[:end], kind, p)
        if r is None:
            break
        parts.append(StrV(s[r[0] + r[1]:end]))
        end = r[0]
    parts.append(StrV(s[:end]))
    return IterV('list', (tuple(parts), 0))


@model('str::matches')
def m_matches(it, argv, text):
    s = it.as_str(argv[0]).b
    kind, p = pat_kind(it, argv[1])
    out = []
    pos = 0
    while True:
        r = pat_find(it, s, kind, p, pos)
        if r is None:
            break
        out.append(StrV(s[r[0]:r[0] + r[1]]))
        pos = r[0] + max(r[1], 1)
        if pos > len(s):
            break
    return IterV('list', (tuple(out), 0))


@model('str::match_indices')
def m_match_indices(it, argv, text):
    s = it.as_str(argv[0]).b
    kind, p = pat_kind(it, argv[1])
    out = []
    pos = 0
    while True:
        r = pat_find(it, s, kind, p, pos)
        if r is None:
            break
        out.append(TupleV((r[0], StrV(s[r[0]:r[0] + r[1]]))))
        pos = r[0] + max(r[1], 1)
        if pos > len(s):
            break
    return IterV('list', (tuple(out), 0))


@model('str::split_at')
def m_split_at(it, argv, text):
    s = it.as_str(argv[0]).b
    k = argv[1]
    if k > len(s) or not is_boundary(s, k):
        raise RustPanic("split_at: not a char boundary")
    return TupleV((StrV(s[:k]), StrV(s[k:])))


@model('str::chars_count', 'str::is_ascii')
def m_str_is_ascii(it, argv, text):
    s = it.as_str(argv[0]).b
    return all((b < 128) if isinstance(b, int) else True for b in s)


# ----------------------------------------------------------------------------- Entry API, From conversions

def _entry_parts(it, e):
    e = it.deref_all(e)
    if isinstance(e, EnumV):       # Entry::{Occupied,Vacant}(inner)
        e = e.f[0]
    return e.data                  # (map addr, key, index|None)


def _entry_slot(it, e):
    addr, key, i = _entry_parts(it, e)
    return addr, key, i


@model('OccupiedEntry::get', 'OccupiedEntry::get_mut', 'OccupiedEntry::into_mut')
def m_occ_get(it, argv, text):
    addr, key, i = _entry_slot(it, argv[0])
    return RefV(Addr(addr.root, addr.proj + (('i', i), ('f', 1))))


@model('OccupiedEntry::key', 'VacantEntry::key')
def m_occ_key(it, argv, text):
    addr, key, i = _entry_slot(it, argv[0])
    return RefV(it.alloc(key))


@model('OccupiedEntry::insert')
def m_occ_insert(it, argv, text):
    addr, key, i = _entry_slot(it, argv[0])
    slot = Addr(addr.root, addr.proj + (('i', i), ('f', 1)))
    old = it.load(slot)
    it.store(slot, argv[1])
    return old


@model('OccupiedEntry::remove', 'OccupiedEntry::remove_entry')
def m_occ_remove(it, argv, text):
    addr, key, i = _entry_slot(it, argv[0])
    mv = it.load(addr)
    it.store(addr, MapV(mv.items[:i] + mv.items[i + 1:], mv.is_set))
    return mv.items[i] if text.endswith('remove_entry') else mv.items[i].f[1]


@model('VacantEntry::insert', 'VacantEntry::insert_entry')
def m_vac_insert(it, argv, text):
    addr, key, i = _entry_slot(it, argv[0])
    mv = it.load(addr)
    it.store(addr, MapV(mv.items + (TupleV((key, argv[1])),), mv.is_set))
    return RefV(Addr(addr.root, addr.proj + (('i', len(mv.items)), ('f', 1))))


@model('VacantEntry::into_key')
def m_vac_into_key(it, argv, text):
    return _entry_slot(it, argv[0])[1]


@model('Entry::or_insert_with_key')
def m_or_insert_with_key(it, argv, text):
    ent = argv[0]
    return S._entry_or(it, ent, lambda: it.call_value(argv[1], [RefV(it.alloc(ent.f[0].data[1]))]))


@model('<HashSet as From>::from', '<HashSet as FromIterator>::from_iter')
def m_set_from(it, argv, text):
    mv = MapV((), True)
    src = argv[0]
    items = src.e if isinstance(src, VecV) else drain(it, S.m_into_iter(it, [src], text))
    for x in items:
        mv = S.map_insert(it, mv, x, UNIT)[0]
    return mv


@model('<HashMap as From>::from', '<HashMap as FromIterator>::from_iter')
def m_map_from(it, argv, text):
    mv = MapV((), False)
    src = argv[0]
    items = src.e if isinstance(src, VecV) else drain(it, S.m_into_iter(it, [src], text))
    for x in items:
        mv = S.map_insert(it, mv, x.f[0], x.f[1])[0]
    return mv


@model('<Vec as From>::from', '<Vec as FromIterator>::from_iter', 'slice::into_vec')
def m_vec_from(it, argv, text):
    src = it.deref_all(argv[0])
    if isinstance(src, StrV):
        return VecV(src.b)
    if isinstance(src, VecV):
        return src
    if isinstance(src, MapV):
        return VecV(tuple(kv.f[0] if src.is_set else kv for kv in src.items))
    return VecV(tuple(drain(it, S.m_into_iter(it, [argv[0]], text))))


@model('HashSet::get')
def m_set_get(it, argv, text):
    r = argv[0]
    while isinstance(it.load(r.addr), RefV):
        r = it.load(r.addr)
    mv = it.load(r.addr)
    i = S.map_find(it, mv, it.deref_all(argv[1]))
    if i is None:
        return NONE
    return some(RefV(Addr(r.addr.root, r.addr.proj + (('i', i), ('f', 0)))))


@model('HashSet::union', 'HashSet::difference', 'HashSet::intersection')
def m_set_ops(it, argv, text):
    a, b = it.deref_all(argv[0]), it.deref_all(argv[1])
    op = text.rsplit('::', 1)[-1].split('<')[0]
    out = []
    for kv in a.items:
        inb = S.map_find(it, b, kv.f[0]) is not None
        if (op == 'difference' and not inb) or (op == 'intersection' and inb) or op == 'union':
            out.append(kv.f[0])
    if op == 'union':
        for kv in b.items:
            if S.map_find(it, a, kv.f[0]) is None:
                out.append(kv.f[0])
    return IterV('list', (tuple(RefV(it.alloc(x)) for x in out), 0))


@model('slice::chunks', 'slice::chunks_exact')
def m_chunks(it, argv, text):
    xs = _seq_vals(it, argv[0])
    n = argv[1]
    if n == 0:
        raise RustPanic("chunk size must be non-zero")
    out = [VecV(tuple(xs[i:i + n])) for i in range(0, len(xs), n)]
    if text.split('::<')[0].endswith('chunks_exact') and out and len(out[-1].e) != n:
        out = out[:-1]
    return IterV('list', (tuple(out), 0))


@model('slice::windows')
def m_windows(it, argv, text):
    xs = _seq_vals(it, argv[0])
    n = argv[1]
    return IterV('list', (tuple(VecV(tuple(xs[i:i + n])) for i in range(0, max(0, len(xs) - n + 1))), 0))


@model('slice::iter_bytes', 'slice::copy_from_slice', 'slice::clone_from_slice')
def m_copy_from_slice(it, argv, text):
    dst = argv[0]
    src = _seq_vals(it, argv[1])
    if isinstance(dst, RefV):
        inner = it.load(dst.addr)
        dst = SliceV(dst.addr, 0, len(inner.e))
    if dst.end - dst.start != len(src):
        raise RustPanic("source slice length does not match destination slice length")
    base = it.load(dst.addr)
    it.store(dst.addr, VecV(base.e[:dst.start] + tuple(src) + base.e[dst.end:]))
    return UNIT


@model('slice::strip_suffix', 'slice::strip_prefix')
def m_slice_strip(it, argv, text):
    """<[T]>::strip_suffix / strip_prefix (round 6): the remaining elements by value (byte strings stay byte strings)"""
    src = it.deref_all(argv[0])
    a, b = _seq_vals(it, argv[0]), _seq_vals(it, argv[1])
    if len(b) > len(a):
        return NONE
    suffix = text.split('::<')[0].rsplit('::', 1)[-1] == 'strip_suffix' or 'strip_suffix' in text
    part, rest = (a[len(a) - len(b):], a[:len(a) - len(b)]) if suffix else (a[:len(b)], a[len(b):])
    if not all(value_eq(it, x, y) for x, y in zip(part, b)):
        return NONE
    return some(StrV(tuple(rest)) if isinstance(src, StrV) else VecV(tuple(rest)))
