"""Parser for rustc's textual MIR (-Zunpretty=mir), as far as txtpp's dump needs it.

Anything the parser does not understand raises MirParseError: a check that hits one is
inconclusive, never silently skipped.
"""
import re
from dataclasses import dataclass, field


class MirParseError(Exception):
    pass


# ----------------------------------------------------------------------------- lexical helpers

def skip_string(s, i):
    """s[i] == '"': return index just after the closing quote."""
    assert s[i] == '"'
    i += 1
    n = len(s)
    while i < n:
        c = s[i]
        if c == '\\':
            i += 2
            continue
        if c == '"':
            return i + 1
        i += 1
    raise MirParseError("unterminated string: " + s[:80])


def char_lit_end(s, i):
    """s[i] == "'": if a char literal starts here return index after it, else None (lifetime)."""
    n = len(s)
    if i + 1 >= n:
        return None
    if s[i + 1] == '\\':
        j = i + 2
        # escapes: \n \r \t \\ \' \" \0 \x7f \u{...}
        if j < n and s[j] == 'u':
            k = s.find('}', j)
            if k > 0 and k + 1 < n and s[k + 1] == "'":
                return k + 2
            return None
        if j < n and s[j] == 'x':
            if j + 3 < n and s[j + 3] == "'":
                return j + 4
            return None
        if j + 1 < n and s[j + 1] == "'":
            return j + 2
        return None
    if i + 2 < n and s[i + 2] == "'":
        return i + 3
    return None


OPEN = '([{<'
CLOSE = ')]}>'


def split_top(s, sep=','):
    """Split s at top-level occurrences of sep (not inside brackets / strings)."""
    out = []
    depth = 0
    i = 0
    n = len(s)
    start = 0
    while i < n:
        c = s[i]
        if c == '"':
            i = skip_string(s, i)
            continue
        if c == "'":
            e = char_lit_end(s, i)
            if e is not None:
                i = e
                continue
        if c in '([{':
            depth += 1
        elif c in ')]}':
            depth -= 1
        elif c == '<':
            # generic bracket only if it looks like one (`::<` or ident<)
            if _is_generic_open(s, i):
                depth += 1
        elif c == '>':
            if i > 0 and s[i - 1] in '-=':
                pass
            elif depth > 0 and _is_generic_close(s, i):
                depth -= 1
        elif c == sep and depth == 0:
            out.append(s[start:i].strip())
            start = i + 1
        i += 1
    last = s[start:].strip()
    if last:
        out.append(last)
    return out


def _is_generic_open(s, i):
    # `<` opens a generic list if preceded by `::`, an identifier char, or starts a qualified path `<T as ..>`
    if i == 0:
        return True
    p = s[i - 1]
    if p.isalnum() or p == '_' or p == ':':
        return True
    if p in ' (,&[{*' or p == '<':
        # qualified path like `<T as Trait>` — but not comparison (never printed infix in MIR)
        return True
    return False


def _is_generic_close(s, i):
    return True


def match_paren_back(s, end):
    """s[end] == ')': find index of matching '(' scanning a forward pass (string-aware)."""
    stack = []
    i = 0
    n = len(s)
    pairs = {}
    while i < n:
        c = s[i]
        if c == '"':
            i = skip_string(s, i)
            continue
        if c == "'":
            e = char_lit_end(s, i)
            if e is not None:
                i = e
                continue
        if c in '([{':
            stack.append(i)
        elif c in ')]}':
            if not stack:
                raise MirParseError("unbalanced: " + s)
            o = stack.pop()
            pairs[i] = o
        i += 1
    if end not in pairs:
        raise MirParseError("no match for paren at %d in %s" % (end, s))
    return pairs[end]


def match_forward(s, i):
    """s[i] in '([{': return index of the matching closer (string aware)."""
    depth = 0
    n = len(s)
    while i < n:
        c = s[i]
        if c == '"':
            i = skip_string(s, i)
            continue
        if c == "'":
            e = char_lit_end(s, i)
            if e is not None:
                i = e
                continue
        if c in '([{':
            depth += 1
        elif c in ')]}':
            depth -= 1
            if depth == 0:
                return i
        i += 1
    raise MirParseError("unbalanced forward: " + s)


# ----------------------------------------------------------------------------- AST

@dataclass
class Place:
    local: int
    proj: tuple  # of ('deref',) | ('field', k, ty, transparent) | ('downcast', name) | ('index', local) | ('constindex', k, from_end)
    def __repr__(self):
        return "_%d%s" % (self.local, ''.join(_pp(p) for p in self.proj))


def _pp(p):
    if p[0] == 'deref':
        return '.*'
    if p[0] == 'field':
        return '.%d' % p[1]
    if p[0] == 'downcast':
        return ' as %s' % p[1]
    if p[0] == 'index':
        return '[_%d]' % p[1]
    return str(p)


@dataclass
class Operand:
    kind: str          # 'copy' | 'move' | 'const'
    place: Place = None
    const: object = None   # Const


@dataclass
class Const:
    kind: str          # bool int unit str bytes char zst named fnitem promoted
    value: object = None
    ty: str = None


@dataclass
class Rvalue:
    kind: str          # use ref addr discriminant binop unop cast aggregate len repeat
    a: object = None
    b: object = None
    c: object = None
    extra: object = None


@dataclass
class Stmt:
    kind: str          # assign | nop
    place: Place = None
    rv: Rvalue = None
    text: str = ''


@dataclass
class Term:
    kind: str          # goto switch call return drop assert unreachable resume
    text: str = ''
    target: int = None
    targets: list = None       # switch: [(value, bb)], otherwise
    otherwise: int = None
    discr: Operand = None
    func: str = None
    func_operand: Operand = None
    args: list = None
    dest: Place = None
    cond: Operand = None
    expected: bool = True
    msg: str = ''
    place: Place = None


@dataclass
class Block:
    stmts: list
    term: Term
    cleanup: bool = False


@dataclass
class Function:
    name: str
    nargs: int
    ret_ty: str
    locals: dict      # id -> type string
    blocks: dict      # id -> Block
    header: str = ''
    debug: dict = field(default_factory=dict)  # local -> source name


@dataclass
class Program:
    functions: dict
    consts: dict       # name -> Const or Function(promoted/const body)
    allocs: dict


# ----------------------------------------------------------------------------- parsing types of places

WRAPPERS = ('std::ptr::Unique<', 'std::ptr::NonNull<', 'std::mem::ManuallyDrop<', 'std::mem::MaybeDangling<',
            'std::mem::MaybeUninit<', 'std::boxed::Box<', 'Box<')


def _deref_ty(ty):
    if ty is None:
        return None
    t = ty.strip()
    for p in ('&mut ', '&', '*const ', '*mut '):
        if t.startswith(p):
            t = t[len(p):]
            # strip lifetime
            t = re.sub(r"^'\w+ ", '', t)
            if t.startswith('mut '):
                t = t[4:]
            return t
    if t.startswith('std::boxed::Box<') or t.startswith('Box<'):
        return t[t.index('<') + 1:-1]
    return None


class PlaceParser:
    def __init__(self, fn_locals):
        self.locals = fn_locals

    def parse(self, s):
        s = s.strip()
        place, ty, rest = self._parse(s, 0)
        if rest != len(s):
            raise MirParseError("trailing in place: %r at %d" % (s, rest))
        return place

    def _parse(self, s, i):
        # returns (Place, type, next index)
        if s[i] == '_':
            m = re.match(r'_(\d+)', s[i:])
            loc = int(m.group(1))
            place = Place(loc, ())
            ty = self.locals.get(loc)
            i += m.end()
        elif s[i] == '(':
            close = match_forward(s, i)
            inner = s[i + 1:close]
            if inner.startswith('*'):
                p, t, r = self._parse(inner, 1)
                if r != len(inner):
                    raise MirParseError("deref trailing: " + s)
                place = Place(p.local, p.proj + (('deref',),))
                ty = _deref_ty(t)
            else:
                p, t, r = self._parse(inner, 0)
                rest = inner[r:]
                m = re.match(r' as (\w+)$', rest)
                if m:
                    place = Place(p.local, p.proj + (('downcast', m.group(1)),))
                    ty = t
                else:
                    m = re.match(r'\.(\d+): ', rest)
                    if not m:
                        raise MirParseError("bad projection %r in %r" % (rest, s))
                    fty = rest[m.end():]
                    transparent = bool(t and t.strip().startswith(WRAPPERS))
                    place = Place(p.local, p.proj + (('field', int(m.group(1)), fty, transparent),))
                    ty = fty
            i = close + 1
        else:
            raise MirParseError("bad place %r" % s[i:])
        # postfix index
        while i < len(s) and s[i] == '[':
            close = match_forward(s, i)
            inner = s[i + 1:close]
            m = re.match(r'_(\d+)$', inner)
            if m:
                place = Place(place.local, place.proj + (('index', int(m.group(1))),))
            else:
                m = re.match(r'(-?)(\d+) of (\d+)$', inner)
                if not m:
                    raise MirParseError("bad index %r" % inner)
                place = Place(place.local, place.proj + (('constindex', int(m.group(2)), m.group(1) == '-'),))
            ty = None
            i = close + 1
        return place, ty, i


# ----------------------------------------------------------------------------- constants

_INT_RE = re.compile(r'^(-?\d+)_(u8|u16|u32|u64|u128|usize|i8|i16|i32|i64|i128|isize)$')
_ESC = {'n': 10, 'r': 13, 't': 9, '\\': 92, "'": 39, '"': 34, '0': 0}


def unescape_bytes(body, is_bytes):
    """Rust-escaped literal body -> bytes."""
    out = bytearray()
    i = 0
    n = len(body)
    while i < n:
        c = body[i]
        if c == '\\':
            d = body[i + 1]
            if d == 'x':
                out.append(int(body[i + 2:i + 4], 16))
                i += 4
            elif d == 'u':
                k = body.index('}', i)
                out += chr(int(body[i + 3:k], 16)).encode()
                i = k + 1
            elif d in _ESC:
                out.append(_ESC[d])
                i += 2
            elif d == '\n':
                i += 2
            else:
                raise MirParseError("escape \\%s" % d)
        else:
            out += c.encode()
            i += 1
    return bytes(out)


def parse_const(txt):
    t = txt.strip()
    if t == 'true':
        return Const('bool', True)
    if t == 'false':
        return Const('bool', False)
    if t == '()':
        return Const('unit', ())
    m = _INT_RE.match(t)
    if m:
        return Const('int', int(m.group(1)), m.group(2))
    if t.startswith('"'):
        e = skip_string(t, 0)
        if e != len(t):
            raise MirParseError("const str trailing: " + t)
        return Const('str', unescape_bytes(t[1:-1], False))
    if t.startswith('b"'):
        e = skip_string(t, 1)
        if e != len(t):
            raise MirParseError("const bytes trailing: " + t)
        return Const('bytes', unescape_bytes(t[2:-1], True))
    if t.startswith("'"):
        e = char_lit_end(t, 0)
        if e == len(t):
            b = unescape_bytes(t[1:-1], False)
            return Const('char', ord(b.decode()))
    if t.startswith("b'"):
        b = unescape_bytes(t[2:-1], True)
        return Const('int', b[0], 'u8')
    if t.startswith('ZeroSized: '):
        return Const('zst', t[len('ZeroSized: '):])
    m = re.match(r'^(.*)::promoted\[(\d+)\]$', t)
    if m:
        return Const('promoted', int(m.group(2)), m.group(1))
    if re.match(r'^-?\d+(\.\d+)?(e-?\d+)?_?f(32|64)$', t) or re.match(r'^-?\d+\.\d+', t):
        return Const('float', t)
    # named constant / unit struct / fn item
    return Const('named', t)


# ----------------------------------------------------------------------------- statement / terminator parsing

BINOPS = {'Eq', 'Ne', 'Lt', 'Le', 'Gt', 'Ge', 'Add', 'Sub', 'Mul', 'Div', 'Rem', 'BitAnd', 'BitOr', 'BitXor',
          'Shl', 'Shr', 'AddWithOverflow', 'SubWithOverflow', 'MulWithOverflow', 'AddUnchecked', 'SubUnchecked',
          'MulUnchecked', 'Offset', 'Cmp', 'ShlUnchecked', 'ShrUnchecked'}
UNOPS = {'Not', 'Neg', 'PtrMetadata'}


class FnParser:
    def __init__(self, name, header, body_lines):
        self.name = name
        self.header = header
        self.lines = body_lines
        self.locals = {}
        self.debug = {}

    def operand(self, s):
        s = s.strip()
        if s.startswith('no_retag '):
            s = s[len('no_retag '):]
        if s.startswith('copy '):
            return Operand('copy', place=self.pp.parse(s[5:]))
        if s.startswith('move '):
            return Operand('move', place=self.pp.parse(s[5:]))
        if s.startswith('const '):
            return Operand('const', const=parse_const(s[6:]))
        # bare function item / named constant
        return Operand('const', const=Const('named', s))

    def rvalue(self, s):
        s = s.strip()
        if s.startswith('no_retag '):
            s = s[len('no_retag '):]
        if s.startswith('&raw const '):
            return Rvalue('addr', self.pp.parse(s[len('&raw const '):]))
        if s.startswith('&raw mut '):
            return Rvalue('addr', self.pp.parse(s[len('&raw mut '):]))
        if s.startswith('&mut '):
            return Rvalue('ref', self.pp.parse(s[5:]), True)
        if s.startswith('&fake '):
            return Rvalue('ref', self.pp.parse(re.sub(r'^&fake \w+ ', '', s)), False)
        if s.startswith('&'):
            return Rvalue('ref', self.pp.parse(s[1:]), False)
        m = re.match(r'^discriminant\((.*)\)$', s)
        if m:
            return Rvalue('discriminant', self.pp.parse(m.group(1)))
        m = re.match(r'^(Len|CopyForDeref)\((.*)\)$', s)
        if m:
            return Rvalue(m.group(1).lower(), self.pp.parse(m.group(2)))
        m = re.match(r'^(\w+)\((.*)\)$', s)
        if m and m.group(1) in BINOPS:
            parts = split_top(m.group(2))
            if len(parts) != 2:
                raise MirParseError("binop arity: " + s)
            return Rvalue('binop', m.group(1), self.operand(parts[0]), self.operand(parts[1]))
        if m and m.group(1) in UNOPS:
            return Rvalue('unop', m.group(1), self.operand(m.group(2)))
        # cast: `<operand> as <ty> (<Kind>)`
        if s.startswith(('copy ', 'move ', 'const ')) and s.endswith(')') and ' as ' in s:
            try:
                o = match_paren_back(s, len(s) - 1)
            except MirParseError:
                o = None
            if o and s[o - 1] == ' ' and re.match(r'^\w+', s[o + 1:]):
                head = s[:o - 1]
                # split at the first top-level ` as `
                depth = 0
                i = 0
                idx = None
                while i < len(head):
                    c = head[i]
                    if c == '"':
                        i = skip_string(head, i)
                        continue
                    if c in '([{':
                        depth += 1
                    elif c in ')]}':
                        depth -= 1
                    elif depth == 0 and head.startswith(' as ', i):
                        idx = i
                        break
                    i += 1
                if idx is not None:
                    try:
                        opnd = self.operand(head[:idx])
                        return Rvalue('cast', opnd, head[idx + 4:], s[o + 1:-1])
                    except MirParseError:
                        pass
        if s.startswith(('copy ', 'move ', 'const ')):
            return Rvalue('use', self.operand(s))
        # aggregates
        if s.startswith('['):
            close = match_forward(s, 0)
            inner = s[1:close]
            if close != len(s) - 1:
                raise MirParseError("array trailing: " + s)
            parts = split_top(inner, ';')
            if len(parts) == 2:
                return Rvalue('repeat', self.operand(parts[0]), parts[1])
            return Rvalue('aggregate', 'array', [self.operand(p) for p in split_top(inner)])
        if s.startswith('('):
            close = match_forward(s, 0)
            if close == len(s) - 1:
                inner = s[1:close]
                return Rvalue('aggregate', 'tuple', [self.operand(p) for p in split_top(inner)])
        if s.startswith('{closure@') or s.startswith('{coroutine@'):
            close = match_forward(s, 0)
            cname = s[:close + 1]
            rest = s[close + 1:].strip()
            fields = []
            if rest:
                if not (rest.startswith('{') and rest.endswith('}')):
                    raise MirParseError("closure aggregate: " + s)
                for part in split_top(rest[1:-1]):
                    k, v = part.split(': ', 1)
                    fields.append((k.strip(), self.operand(v)))
            return Rvalue('aggregate', 'closure', fields, extra=cname)
        # struct  `Path { a: x, b: y }`   enum variant `Path::Variant(args)` / `Path::Variant`
        if s.endswith('}'):
            o = self._last_top_open(s, '{')
            if o is not None:
                head = s[:o].strip()
                fields = []
                for part in split_top(s[o + 1:-1]):
                    k, v = part.split(': ', 1)
                    fields.append((k.strip(), self.operand(v)))
                return Rvalue('aggregate', 'struct', fields, extra=head)
        if s.endswith(')'):
            o = match_paren_back(s, len(s) - 1)
            head = s[:o].strip()
            return Rvalue('aggregate', 'variant', [self.operand(p) for p in split_top(s[o + 1:-1])], extra=head)
        # unit-like variant / unit struct:  `Option::<String>::None`, `Yellow`, `log::Level::Debug`
        return Rvalue('aggregate', 'variant', [], extra=s)

    def _last_top_open(self, s, ch):
        # index of the '{' that matches the final '}'
        try:
            return match_paren_back(s, len(s) - 1)
        except MirParseError:
            return None

    def parse(self):
        # header
        h = self.header
        m = re.match(r'^(?:fn |const |static (?:mut )?)(.*)$', h)
        nargs = 0
        ret_ty = None
        if h.startswith('fn '):
            # find arg list: the '(' after the name whose content starts with `_1: ` or is empty, followed by ` -> ` or ` {`
            idx = self._find_arglist(h)
            close = match_forward(h, idx)
            argtxt = h[idx + 1:close]
            for part in split_top(argtxt):
                mm = re.match(r'^(?:mut )?_(\d+): (.*)$', part)
                if not mm:
                    raise MirParseError("arg: %r in %s" % (part, h))
                self.locals[int(mm.group(1))] = mm.group(2)
                nargs += 1
            rest = h[close + 1:].strip()
            if rest.startswith('->'):
                ret_ty = rest[2:].rstrip('{').strip()
            else:
                ret_ty = '()'
        else:
            # const NAME: TYPE = {
            mm = re.match(r'^(?:const|static(?: mut)?) (.*): (.*?) = \{$', h)
            if mm:
                ret_ty = mm.group(2)
        self.locals[0] = ret_ty
        # locals
        stmts_by_block = {}
        cur = None
        cleanup = {}
        buf = ''
        for raw in self.lines:
            s = raw.strip()
            if not s:
                continue
            if cur is None or buf == '':
                m = re.match(r'^let (?:mut )?_(\d+): (.*);$', s)
                if m and cur is None:
                    self.locals[int(m.group(1))] = m.group(2)
                    continue
                m = re.match(r'^debug (.*) => (.*);$', s)
                if m and cur is None:
                    mm = re.match(r'^_(\d+)$', m.group(2))
                    if mm:
                        self.debug.setdefault(int(mm.group(1)), m.group(1))
                    continue
                if cur is None and (s.startswith('scope ') or s == '}'):
                    continue
                m = re.match(r'^bb(\d+)( \(cleanup\))?: \{$', s)
                if m:
                    cur = int(m.group(1))
                    stmts_by_block[cur] = []
                    cleanup[cur] = bool(m.group(2))
                    continue
                if s == '}' and cur is not None:
                    cur = None
                    continue
            if cur is None:
                if s.startswith('let ') or s.startswith('debug '):
                    # multi-line let (rare)
                    continue
                raise MirParseError("unexpected line outside block in %s: %r" % (self.name, s))
            buf = (buf + ' ' + s) if buf else s
            if self._complete(buf):
                stmts_by_block[cur].append(buf)
                buf = ''
        if buf:
            raise MirParseError("dangling statement: " + buf)
        self.pp = PlaceParser(self.locals)
        blocks = {}
        for bid, texts in stmts_by_block.items():
            if not texts:
                raise MirParseError("empty block")
            stmts = [self.stmt(t) for t in texts[:-1]]
            term = self.term(texts[-1])
            blocks[bid] = Block(stmts, term, cleanup[bid])
        return Function(self.name, nargs, ret_ty, self.locals, blocks, self.header, self.debug)

    def _find_arglist(self, h):
        # scan for '(' at generic-depth 0 that begins the argument list: first '(' followed by `_1: ` / `mut _1` / ')'
        i = 3
        n = len(h)
        depth = 0
        while i < n:
            c = h[i]
            if c == '<' and _is_generic_open(h, i):
                depth += 1
            elif c == '>' and h[i - 1] != '-' and depth > 0:
                depth -= 1
            elif c == '(' and depth == 0:
                if re.match(r'\((mut )?_1: |\(\)', h[i:]):
                    return i
            i += 1
        raise MirParseError("no arglist: " + h)

    def _complete(self, s):
        if not s.endswith(';'):
            return False
        # balanced & not inside a string
        depth = 0
        i = 0
        n = len(s)
        try:
            while i < n:
                c = s[i]
                if c == '"':
                    i = skip_string(s, i)
                    continue
                if c == "'":
                    e = char_lit_end(s, i)
                    if e is not None:
                        i = e
                        continue
                if c in '([{':
                    depth += 1
                elif c in ')]}':
                    depth -= 1
                i += 1
        except MirParseError:
            return False
        return depth == 0

    def stmt(self, t):
        s = t.rstrip(';').strip()
        if s.startswith(('StorageLive', 'StorageDead', 'nop', 'FakeRead', 'PlaceMention', 'AscribeUserType',
                         'Coverage', 'ConstEvalCounter', 'Retag', 'BackwardIncompatibleDropHint')):
            return Stmt('nop', text=t)
        if s.startswith('assume('):
            return Stmt('nop', text=t)
        if s.startswith('deinit('):
            return Stmt('nop', text=t)
        i = self._top_eq(s)
        if i is None:
            raise MirParseError("statement: " + t)
        lhs = s[:i].strip()
        rhs = s[i + 3:].strip()
        return Stmt('assign', self.pp.parse(lhs), self.rvalue(rhs), text=t)

    def _top_eq(self, s):
        depth = 0
        i = 0
        n = len(s)
        while i < n:
            c = s[i]
            if c == '"':
                i = skip_string(s, i)
                continue
            if c == "'":
                e = char_lit_end(s, i)
                if e is not None:
                    i = e
                    continue
            if c in '([{':
                depth += 1
            elif c in ')]}':
                depth -= 1
            elif depth == 0 and s.startswith(' = ', i):
                return i
            i += 1
        return None

    def term(self, t):
        s = t.rstrip(';').strip()
        if s == 'return':
            return Term('return', t)
        if s in ('unreachable',):
            return Term('unreachable', t)
        if s.startswith('resume') or s.startswith('terminate') or s.startswith('abort'):
            return Term('resume', t)
        m = re.match(r'^goto -> bb(\d+)$', s)
        if m:
            return Term('goto', t, target=int(m.group(1)))
        m = re.match(r'^switchInt\((.*)\) -> \[(.*)\]$', s)
        if m:
            targets = []
            otherwise = None
            for part in split_top(m.group(2)):
                k, v = part.split(': ')
                bb = int(v.strip()[2:])
                if k == 'otherwise':
                    otherwise = bb
                else:
                    targets.append((int(k), bb))
            return Term('switch', t, discr=self.operand(m.group(1)), targets=targets, otherwise=otherwise)
        m = re.match(r'^drop\((.*)\) -> \[return: bb(\d+), unwind[^\]]*\]$', s)
        if m:
            return Term('drop', t, place=self.pp.parse(m.group(1)), target=int(m.group(2)))
        m = re.match(r'^drop\((.*)\) -> bb(\d+)$', s)
        if m:
            return Term('drop', t, place=self.pp.parse(m.group(1)), target=int(m.group(2)))
        if s.startswith('assert('):
            close = match_forward(s, 6)
            inner = s[7:close]
            parts = split_top(inner)
            cond = parts[0]
            expected = True
            if cond.startswith('!'):
                expected = False
                cond = cond[1:]
            rest = s[close + 1:]
            m = re.match(r'^ -> \[success: bb(\d+), unwind[^\]]*\]$', rest)
            if not m:
                raise MirParseError("assert tail: " + t)
            return Term('assert', t, cond=self.operand(cond), expected=expected, msg=parts[1] if len(parts) > 1 else '',
                        target=int(m.group(1)))
        # call
        m = re.search(r' -> \[return: bb(\d+), unwind[^\]]*\]$', s)
        target = None
        if m:
            target = int(m.group(1))
            body = s[:m.start()]
        else:
            m3 = re.search(r' -> bb(\d+)$', s)
            m2 = re.search(r' -> unwind [\w()]+$', s)
            if m3:
                target = int(m3.group(1))
                body = s[:m3.start()]
            elif m2:
                body = s[:m2.start()]
            else:
                raise MirParseError("terminator: " + t)
        if not body.endswith(')'):
            raise MirParseError("call shape: " + t)
        o = match_paren_back(body, len(body) - 1)
        argtxt = body[o + 1:-1]
        head = body[:o]
        dest = None
        i = self._top_eq(head)
        if i is not None:
            dest = self.pp.parse(head[:i])
            head = head[i + 3:]
        head = head.strip()
        func_operand = None
        if head.startswith(('move ', 'copy ')):
            func_operand = self.operand(head)
        args = [self.operand(a) for a in split_top(argtxt)]
        return Term('call', t, func=head, func_operand=func_operand, args=args, dest=dest, target=target)


def parse_program(text):
    lines = text.split('\n')
    i = 0
    n = len(lines)
    functions = {}
    consts = {}
    allocs = {}
    while i < n:
        l = lines[i]
        if l.startswith('fn ') or ((l.startswith('const ') or l.startswith('static ')) and l.rstrip().endswith('{')):
            header = l.rstrip()
            # header may span lines until ' {'
            while not header.endswith('{'):
                i += 1
                header += ' ' + lines[i].strip()
            j = i + 1
            body = []
            while j < n and lines[j] != '}':
                body.append(lines[j])
                j += 1
            if header.startswith('fn '):
                idx_name_end = FnParser('', header, [])._find_arglist(header)
                name = header[3:idx_name_end]
            else:
                mm = re.match(r'^(?:const|static(?: mut)?) (.*::promoted\[\d+\]): ', header)
                if mm:
                    name = mm.group(1)
                else:
                    name = re.match(r'^(?:const|static(?: mut)?) (.*?): ', header).group(1)
            try:
                fn = FnParser(name, header, body).parse()
            except MirParseError as e:
                # a body in a MIR form the parser does not know (e.g. std's thread_local! plumbing): kept as a function that cannot be
                # executed -- reaching it is reported as Unsupported (inconclusive), never guessed
                fn = Function(name, -1, '', {}, {}, header)
                fn.debug = {'broken': str(e)}
            if header.startswith('fn '):
                functions[name] = fn
            else:
                consts[name] = fn
            i = j + 1
            continue
        m = re.match(r'^const (.*?): (.*?) = const (.*);$', l)
        if m:
            consts[m.group(1)] = parse_const(m.group(3))
            i += 1
            continue
        m = re.match(r'^(alloc\d+) \((?:static: .*?, )?size: (\d+), align: (\d+)\) \{(.*)$', l)
        if m:
            aid = m.group(1)
            ms = re.match(r'^alloc\d+ \(static: (.*?), size:', l)
            if ms:
                consts['__static_alloc__' + aid] = ms.group(1)
            if m.group(4).strip() == '}':
                allocs[aid] = b''
                i += 1
                continue
            j = i + 1
            data = []
            while lines[j] != '}':
                data.append(lines[j])
                j += 1
            allocs[aid] = data
            i = j + 1
            continue
        if l.strip() == '' or l.startswith('//') or l.startswith('WARNING'):
            i += 1
            continue
        if re.match(r'^\S.*\{constant#\d+\}[^=]*: .* = \{$', l.rstrip()):
            # anonymous (inline) constant, e.g. the accessor generated by thread_local!: never interpreted (LocalKey is a model)
            j = i + 1
            while j < n and lines[j] != '}':
                j += 1
            i = j + 1
            continue
        raise MirParseError("top-level line %d: %r" % (i + 1, l))
    return Program(functions, consts, allocs)


if __name__ == '__main__':
    import sys
    prog = parse_program(open(sys.argv[1]).read())
    print(len(prog.functions), 'functions', len(prog.consts), 'consts', len(prog.allocs), 'allocs')
    nb = sum(len(f.blocks) for f in prog.functions.values())
    print(nb, 'blocks')
