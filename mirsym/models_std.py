"""Contract models of the std / dependency functions txtpp's MIR calls (pure part).

Each model is `f(it, argv, text) -> value`; `it` is the Interp (it.ctx forks on symbolic bytes).
Everything here is written from the documented behaviour of the std API; the models are validated
against the natively compiled code by running the repository's own unit tests inside the
interpreter and by differential runs on fixture lines (see validate.py).
"""
import re
from .values import *
from .core import (Unsupported, RustPanic, PathEnd, is_sym, t_eq, t_not, t_and, t_or, t_in, t_bytes_eq)
from .interp import BoolT, strip_generics, base_type, norm_ty
from .parser import split_top

MODELS = {}


def model(*names):
    def deco(f):
        for n in names:
            MODELS[n] = f
        return f
    return deco


WS_ASCII = frozenset([9, 10, 11, 12, 13, 32])
WS_UNICODE = set([0x85, 0xA0, 0x1680, 0x2028, 0x2029, 0x202F, 0x205F, 0x3000]) | set(range(0x2000, 0x200B)) | set(WS_ASCII)


# ----------------------------------------------------------------------------- symbolic string primitives

def truth(it, v, label=''):
    """turn bool / BoolT into a Python bool (forking)"""
    if isinstance(v, BoolT):
        return it.ctx.branch(v.t, label)
    return bool(v)


def bytes_eq(it, a, b, label='streq'):
    if len(a) != len(b):
        return False
    return it.ctx.branch(t_bytes_eq(a, b), label)


def is_boundary(bs, i):
    if i == 0 or i == len(bs):
        return True
    if i > len(bs):
        return False
    b = bs[i]
    if isinstance(b, int):
        return (b & 0xC0) != 0x80
    return True   # symbolic bytes are constrained to ASCII by construction (checked in next_char)


def next_char(it, bs, i):
    """decode the char starting at byte i -> (char value, width). char value: int codepoint or CharV"""
    b = bs[i]
    if isinstance(b, int):
        if b < 0x80:
            return b, 1
        w = 2 if b >> 5 == 0b110 else 3 if b >> 4 == 0b1110 else 4 if b >> 3 == 0b11110 else None
        if w is None or i + w > len(bs) or not all(isinstance(x, int) for x in bs[i:i + w]):
            raise Unsupported("non-UTF-8 / symbolic continuation bytes in str")
        return ord(bytes(bs[i:i + w]).decode('utf8')), w
    dom = it.ctx.syms.get(b[1])
    if dom is None or max(dom) >= 0x80:
        # the domain allows non-ASCII values: the path condition must already exclude them (e.g. after UTF-8 validation)
        if not it.ctx.branch(t_in(b, frozenset(range(128))), 'ascii'):
            raise Unsupported("symbolic byte %s may be non-ASCII inside a str" % b[1])
    return CharV(b), 1


def prev_char(it, bs, j):
    """decode the char ending just before byte index j -> (char, width)"""
    b = bs[j - 1]
    if isinstance(b, int) and b >= 0x80:
        k = j - 1
        while k > 0 and isinstance(bs[k], int) and (bs[k] & 0xC0) == 0x80:
            k -= 1
        c, w = next_char(it, bs, k)
        if k + w != j:
            raise Unsupported("bad UTF-8")
        return c, w
    c, w = next_char(it, bs, j - 1)
    return c, 1


def char_pred(it, f, c):
    """apply a char predicate (closure / fn item) -> Python bool"""
    r = it.call_value(f, [c])
    return truth(it, r, 'charpred')


def find_sub(it, hay, needle):
    """first index of needle in hay or None (forks over positions)"""
    n, m = len(hay), len(needle)
    if m == 0:
        return 0
    if m > n:
        return None
    conds = []
    prev_not = []
    for i in range(n - m + 1):
        mi = t_bytes_eq(hay[i:i + m], needle)
        conds.append(t_and(mi, *prev_not))
        prev_not.append(t_not(mi))
    conds.append(t_and(*prev_not))
    d = it.ctx.choose_feasible(conds, 'find')
    return d if d < n - m + 1 else None


def find_byte(it, hay, c):
    return find_sub(it, hay, (c,))


def rfind_byte(it, hay, c):
    n = len(hay)
    conds = []
    later_not = []
    for i in range(n - 1, -1, -1):
        mi = t_eq(hay[i], c)
        conds.append(t_and(mi, *later_not))
        later_not.append(t_not(mi))
    conds.append(t_and(*later_not))
    d = it.ctx.choose_feasible(conds, 'rfind')
    return (n - 1 - d) if d < n else None


def split_lines(it, bs):
    """str::lines(): split at \\n, strip one trailing \\r per line, no final empty line"""
    out = []
    cur = []
    for b in bs:
        if truth(it, BoolT(t_eq(b, 10)) if is_sym(b) else (b == 10), 'lines'):
            out.append(cur)
            cur = []
        else:
            cur.append(b)
    if cur:
        out.append(cur)
        last_unterminated = True
    else:
        last_unterminated = False
    res = []
    for idx, ln in enumerate(out):
        # a trailing \r is stripped for terminated lines and (std >= 1.77 behaviour) also kept for final
        # unterminated line? std: lines() = split_inclusive('\n').map(strip \n then strip \r)
        terminated = not (last_unterminated and idx == len(out) - 1)
        if terminated and ln:
            lb = ln[-1]
            if truth(it, BoolT(t_eq(lb, 13)) if is_sym(lb) else (lb == 13), 'lines_cr'):
                ln = ln[:-1]
        res.append(StrV(tuple(ln)))
    return res


# ----------------------------------------------------------------------------- str / String

@model('str::len', 'String::len', 'OsStr::len')
def m_str_len(it, argv, text):
    return len(it.as_str(argv[0]).b)


@model('str::is_empty', 'String::is_empty')
def m_str_is_empty(it, argv, text):
    return len(it.as_str(argv[0]).b) == 0


@model('str::as_bytes', 'String::as_bytes')
def m_as_bytes(it, argv, text):
    return VecV(it.as_str(argv[0]).b)


@model('str::starts_with')
def m_starts_with(it, argv, text):
    s = it.as_str(argv[0]).b
    p = argv[1]
    if isinstance(it.deref_all(p), int):
        c = it.deref_all(p)
        pb = tuple(chr(c).encode())
    else:
        pb = it.as_str(p).b
    if len(pb) > len(s):
        return False
    return bytes_eq(it, s[:len(pb)], pb, 'starts_with')


@model('str::ends_with')
def m_ends_with(it, argv, text):
    s = it.as_str(argv[0]).b
    p = it.deref_all(argv[1])
    pb = tuple(chr(p).encode()) if isinstance(p, int) else it.as_str(p).b
    if len(pb) > len(s):
        return False
    return bytes_eq(it, s[len(s) - len(pb):], pb, 'ends_with')


@model('str::find')
def m_find(it, argv, text):
    s = it.as_str(argv[0]).b
    pat = argv[1]
    pv = it.deref_all(pat)
    if isinstance(pv, (ClosureV, FnV)):
        i = 0
        while i < len(s):
            c, w = next_char(it, s, i)
            if char_pred(it, pat, c):
                return some(i)
            i += w
        return NONE
    if isinstance(pv, int):
        r = find_sub(it, s, tuple(chr(pv).encode()))
    else:
        r = find_sub(it, s, it.as_str(pat).b)
    return NONE if r is None else some(r)


@model('str::split_once')
def m_split_once(it, argv, text):
    s = it.as_str(argv[0]).b
    pv = it.deref_all(argv[1])
    pb = tuple(chr(pv).encode()) if isinstance(pv, int) else it.as_str(pv).b
    r = find_sub(it, s, pb)
    if r is None:
        return NONE
    return some(TupleV((StrV(s[:r]), StrV(s[r + len(pb):]))))


def _trim(it, s, f, front, back):
    i, j = 0, len(s)
    if front:
        while i < j:
            c, w = next_char(it, s, i)
            if not char_pred(it, f, c):
                break
            i += w
    if back:
        while j > i:
            c, w = prev_char(it, s, j)
            if not char_pred(it, f, c):
                break
            j -= w
    return StrV(s[i:j])


@model('str::trim_matches')
def m_trim_matches(it, argv, text):
    return _trim(it, it.as_str(argv[0]).b, argv[1], True, True)


@model('str::trim_end_matches')
def m_trim_end_matches(it, argv, text):
    pv = it.deref_all(argv[1])
    if isinstance(pv, (ClosureV, FnV)):
        return _trim(it, it.as_str(argv[0]).b, argv[1], False, True)
    raise Unsupported("trim_end_matches with non-closure pattern")


@model('str::trim_start_matches')
def m_trim_start_matches(it, argv, text):
    pv = it.deref_all(argv[1])
    if isinstance(pv, (ClosureV, FnV)):
        return _trim(it, it.as_str(argv[0]).b, argv[1], True, False)
    # string pattern: strip all leading repetitions
    s = it.as_str(argv[0]).b
    pb = it.as_str(pv).b
    if not pb:
        return StrV(s)
    while len(s) >= len(pb) and bytes_eq(it, s[:len(pb)], pb, 'trim_start_matches'):
        s = s[len(pb):]
    return StrV(s)


_WSFN = FnV('char::methods::<impl char>::is_whitespace')


@model('str::trim')
def m_trim(it, argv, text):
    return _trim(it, it.as_str(argv[0]).b, _WSFN, True, True)


@model('str::trim_end')
def m_trim_end(it, argv, text):
    return _trim(it, it.as_str(argv[0]).b, _WSFN, False, True)


@model('str::trim_start')
def m_trim_start(it, argv, text):
    return _trim(it, it.as_str(argv[0]).b, _WSFN, True, False)


@model('str::strip_prefix')
def m_strip_prefix(it, argv, text):
    s = it.as_str(argv[0]).b
    pv = it.deref_all(argv[1])
    pb = tuple(chr(pv).encode()) if isinstance(pv, int) else it.as_str(pv).b
    if len(pb) <= len(s) and bytes_eq(it, s[:len(pb)], pb, 'strip_prefix'):
        return some(StrV(s[len(pb):]))
    return NONE


@model('str::strip_suffix')
def m_strip_suffix(it, argv, text):
    s = it.as_str(argv[0]).b
    pv = it.deref_all(argv[1])
    pb = tuple(chr(pv).encode()) if isinstance(pv, int) else it.as_str(pv).b
    if len(pb) <= len(s) and bytes_eq(it, s[len(s) - len(pb):], pb, 'strip_suffix'):
        return some(StrV(s[:len(s) - len(pb)]))
    return NONE


@model('char::is_whitespace')
def m_is_whitespace(it, argv, text):
    c = it.deref_all(argv[0])
    if isinstance(c, CharV):
        t = t_in(c.b, WS_ASCII)
        return t if isinstance(t, bool) else BoolT(t)
    return c in WS_UNICODE


@model('char::is_ascii_whitespace', 'u8::is_ascii_whitespace')
def m_is_ascii_ws(it, argv, text):
    c = it.deref_all(argv[0])
    S = frozenset([9, 10, 12, 13, 32])
    if isinstance(c, CharV):
        c = c.b
    if is_sym(c):
        return BoolT(t_in(c, S))
    return c in S


@model('str::lines')
def m_lines(it, argv, text):
    return IterV('list', (tuple(split_lines(it, it.as_str(argv[0]).b)), 0))


@model('str::split_whitespace')
def m_split_whitespace(it, argv, text):
    s = it.as_str(argv[0]).b
    out = []
    cur = []
    i = 0
    while i < len(s):
        c, w = next_char(it, s, i)
        if char_pred(it, _WSFN, c):
            if cur:
                out.append(StrV(tuple(cur)))
                cur = []
        else:
            cur.extend(s[i:i + w])
        i += w
    if cur:
        out.append(StrV(tuple(cur)))
    return IterV('list', (tuple(out), 0))


@model('str::repeat')
def m_repeat(it, argv, text):
    s = it.as_str(argv[0]).b
    n = argv[1]
    if n * len(s) > 1 << 20:
        raise Unsupported("repeat too large")
    return StrV(s * n)


@model('str::to_string', 'ToString::to_string', 'str::to_owned', 'ToOwned::to_owned', 'String::from', 'str::into',
       'String::clone')
def m_to_string(it, argv, text):
    v = it.deref_all(argv[0])
    if isinstance(v, StrV):
        return v
    if isinstance(v, EnumV) and v.ename == 'Cow':
        return it.as_str(v.f[0])
    if isinstance(v, bool):
        return str_of('true' if v else 'false')
    if isinstance(v, int):
        if 'char' in (_self_ty(text) or ''):
            return str_of(chr(v))
        return str_of(str(v))
    if isinstance(v, CharV):
        return StrV((v.b,))
    if isinstance(v, OpaqueV) and v.kind == 'PathDisplay':
        return v.data
    if isinstance(v, (StructV, EnumV)):
        return display_value(it, argv[0], base_type(_self_ty(text) or v.__class__.__name__))
    raise Unsupported("to_string of %r (%s)" % (v, text))


def _self_ty(text):
    m = re.match(r'^<(.*) as \w+(?:<.*>)?>::', text)
    return m.group(1) if m else None


@model('String::new', 'OsString::new', 'PathBuf::new')
def m_string_new(it, argv, text):
    return StrV(())


@model('String::push_str', 'OsString::push')
def m_push_str(it, argv, text):
    r = argv[0]
    s = it.load(r.addr)
    it.store(r.addr, StrV(s.b + it.as_str(argv[1]).b))
    return UNIT


@model('String::push')
def m_push_char(it, argv, text):
    r = argv[0]
    s = it.load(r.addr)
    c = argv[1]
    if isinstance(c, CharV):
        add = (c.b,)
    else:
        add = tuple(chr(c).encode())
    it.store(r.addr, StrV(s.b + add))
    return UNIT


@model('<str as Index>::index', '<String as Index>::index')
def m_str_index(it, argv, text):
    s = it.as_str(argv[0]).b
    r = argv[1]
    n = len(s)
    if isinstance(r, StructV):
        if r.name == 'RangeFrom':
            a, b = r.f[0], n
        elif r.name == 'RangeTo':
            a, b = 0, r.f[0]
        elif r.name == 'Range':
            a, b = r.f
        elif r.name == 'RangeFull':
            a, b = 0, n
        else:
            raise Unsupported("str index with " + r.name)
    else:
        raise Unsupported("str index with %r" % (r,))
    if a > b or b > n or not is_boundary(s, a) or not is_boundary(s, b):
        raise RustPanic("byte index out of range or not a char boundary: [%d..%d] of len %d" % (a, b, n))
    return StrV(s[a:b])


def lossy_decode(it, bs):
    """String::from_utf8_lossy on bytes that may be symbolic: the maximal-subpart rule of std's Utf8Chunks, forking on the class of each
    symbolic byte (ASCII / lead byte kinds / continuation ranges).  -> tuple of bytes"""
    def within(b, lo, hi):
        if isinstance(b, int):
            return lo <= b <= hi
        return it.ctx.branch(t_in(b, frozenset(range(lo, hi + 1))), 'utf8class')
    FFFD = (0xEF, 0xBF, 0xBD)
    out = []
    i = 0
    n = len(bs)
    C = (0x80, 0xBF)
    while i < n:
        b = bs[i]
        if within(b, 0, 0x7F):
            out.append(b)
            i += 1
            continue
        if within(b, 0xC2, 0xDF):
            need = [C]
        elif within(b, 0xE0, 0xE0):
            need = [(0xA0, 0xBF), C]
        elif within(b, 0xE1, 0xEC) or within(b, 0xEE, 0xEF):
            need = [C, C]
        elif within(b, 0xED, 0xED):
            need = [(0x80, 0x9F), C]
        elif within(b, 0xF0, 0xF0):
            need = [(0x90, 0xBF), C, C]
        elif within(b, 0xF1, 0xF3):
            need = [C, C, C]
        elif within(b, 0xF4, 0xF4):
            need = [(0x80, 0x8F), C, C]
        else:
            out.extend(FFFD)
            i += 1
            continue
        k = 0
        good = True
        for lo, hi in need:
            if i + 1 + k < n and within(bs[i + 1 + k], lo, hi):
                k += 1
            else:
                good = False
                break
        if good:
            out.extend(bs[i:i + 1 + k])
        else:
            out.extend(FFFD)          # one replacement character for the valid-so-far prefix of the broken sequence
        i += 1 + k
    return tuple(out)


@model('String::from_utf8_lossy')
def m_from_utf8_lossy(it, argv, text):
    bs = it.as_seq(argv[0]) if not isinstance(it.deref_all(argv[0]), StrV) else it.deref_all(argv[0]).b
    if getattr(it, 'exact_lossy', False) and not all(isinstance(b, int) for b in bs):
        out = lossy_decode(it, tuple(bs))
        return EnumV('Cow', 'Owned', 1, (StrV(out),))
    if all(isinstance(b, int) for b in bs):
        s = bytes(bs).decode('utf8', errors='replace').encode('utf8')
        if s == bytes(bs):
            return EnumV('Cow', 'Borrowed', 0, (StrV(tuple(bs)),))
        return EnumV('Cow', 'Owned', 1, (StrV(tuple(s)),))
    for b in bs:
        if is_sym(b):
            dom = it.ctx.syms.get(b[1])
            if dom is None or max(dom) >= 0x80:
                if not it.ctx.branch(t_in(b, frozenset(range(128))), 'ascii'):
                    # a non-ASCII symbolic byte: lossy conversion replaces an invalid sequence by U+FFFD (3 bytes);
                    # valid multi-byte sequences are covered by concrete layouts
                    out = []
                    for x in bs:
                        if x is b:
                            out.extend([0xEF, 0xBF, 0xBD])
                        else:
                            out.append(x)
                    return m_from_utf8_lossy(it, [VecV(tuple(out))], text)
    # concrete non-ASCII parts must be valid UTF-8 between symbolic ASCII bytes
    return EnumV('Cow', 'Borrowed', 0, (StrV(tuple(bs)),))


@model('<String as Deref>::deref', '<PathBuf as Deref>::deref', '<OsString as Deref>::deref', 'String::as_str',
       'PathBuf::as_path', 'Path::as_os_str', 'OsStr::new', 'Path::new', 'String::as_ref', 'PathBuf::as_os_str',
       '<Cow as Deref>::deref', 'Path::to_path_buf', 'OsStr::to_os_string', 'PathBuf::into_os_string',
       'OsString::as_os_str', 'PathBuf::from', '<PathBuf as From>::from', '<OsString as From>::from',
       'PathBuf::clone', 'Path::to_owned', 'OsStr::to_owned', 'Path::as_ref', 'str::as_ref', 'String::borrow',
       'OsString::into_string', 'Path::display', 'PathBuf::display', 'PathBuf::as_ref', 'OsStr::as_ref',
       'PathBuf::into_boxed_path')
def m_str_identity(it, argv, text):
    v = it.as_str(argv[0])
    if text.endswith('::display') or '::display(' in text:
        return OpaqueV('PathDisplay', v)
    return v


@model('Path::to_str', 'OsStr::to_str')
def m_to_str(it, argv, text):
    return some(it.as_str(argv[0]))


@model('Path::to_string_lossy', 'OsStr::to_string_lossy')
def m_to_string_lossy(it, argv, text):
    return EnumV('Cow', 'Borrowed', 0, (it.as_str(argv[0]),))


@model('slice::join', 'Vec::join')
def m_join(it, argv, text):
    elems = it.as_seq(argv[0])
    sep = it.as_str(argv[1]).b
    out = []
    for i, e in enumerate(elems):
        if i:
            out.extend(sep)
        out.extend(it.as_str(e).b)
    return StrV(tuple(out))


@model('slice::concat')
def m_concat(it, argv, text):
    out = []
    for e in it.as_seq(argv[0]):
        out.extend(it.as_str(e).b)
    return StrV(tuple(out))


# ----------------------------------------------------------------------------- equality

def value_eq(it, a, b):
    """structural equality with symbolic bytes (forks); uses MIR PartialEq impls for txtpp types"""
    a = it.deref_all(a)
    b = it.deref_all(b)
    if isinstance(a, EnumV) and a.ename == 'Cow':
        a = it.as_str(a)
    if isinstance(b, EnumV) and b.ename == 'Cow':
        b = it.as_str(b)
    if isinstance(a, StrV) and isinstance(b, StrV):
        return bytes_eq(it, a.b, b.b)
    if isinstance(a, (bool, int)) and isinstance(b, (bool, int)):
        return a == b
    if is_sym(a) or is_sym(b):
        return it.ctx.branch(t_eq(a, b), 'byteeq')
    if isinstance(a, StructV) and isinstance(b, StructV):
        if a.name != b.name:
            return False
        fn = it.m.lookup_def(a.name, 'PartialEq', None, 'eq')
        if fn is not None:
            r = it.call_mir(fn, [RefV(it.alloc(a)), RefV(it.alloc(b))])
            return truth(it, r)
        return all(value_eq(it, x, y) for x, y in zip(a.f, b.f))
    if isinstance(a, EnumV) and isinstance(b, EnumV):
        if a.ename != b.ename or a.idx != b.idx:
            return False
        return all(value_eq(it, x, y) for x, y in zip(a.f, b.f))
    if isinstance(a, TupleV) and isinstance(b, TupleV):
        return len(a.f) == len(b.f) and all(value_eq(it, x, y) for x, y in zip(a.f, b.f))
    if isinstance(a, (VecV, SliceV)) or isinstance(b, (VecV, SliceV)):
        ea, eb = it.as_seq(a), it.as_seq(b)
        if len(ea) != len(eb):
            return False
        if all(isinstance(x, int) or is_sym(x) for x in ea + eb):
            return bytes_eq(it, tuple(ea), tuple(eb))
        return all(value_eq(it, x, y) for x, y in zip(ea, eb))
    if isinstance(a, StrV) and isinstance(b, VecV) or isinstance(a, VecV) and isinstance(b, StrV):
        ea = a.b if isinstance(a, StrV) else a.e
        eb = b.b if isinstance(b, StrV) else b.e
        return bytes_eq(it, tuple(ea), tuple(eb))
    if isinstance(a, MapV) and isinstance(b, MapV):
        if len(a.items) != len(b.items):
            return False
        for kv in a.items:
            i = map_find(it, b, kv.f[0])
            if i is None or not value_eq(it, kv.f[1], b.items[i].f[1]):
                return False
        return True
    raise Unsupported("equality of %r and %r" % (a, b))


@model('PartialEq::eq')
def m_eq(it, argv, text):
    if base_type(_self_ty(text) or '') in ('Path', 'PathBuf'):
        return path_eq(it, it.as_str(argv[0]).b, it.as_str(argv[1]).b)
    return value_eq(it, argv[0], argv[1])


@model('PartialEq::ne')
def m_ne(it, argv, text):
    return not m_eq(it, argv, text)


@model('Ord::cmp', 'PartialOrd::partial_cmp')
def m_cmp(it, argv, text):
    a, b = it.deref_all(argv[0]), it.deref_all(argv[1])
    if isinstance(a, int) and isinstance(b, int):
        r = EnumV('Ordering', 'Less' if a < b else 'Equal' if a == b else 'Greater', 0 if a < b else 1 if a == b else 2)
        if 'partial_cmp' in text:
            return some(r)
        return r
    raise Unsupported("cmp of %r %r" % (a, b))


@model('<Level as PartialOrd>::le')
def m_level_le(it, argv, text):
    a, b = it.deref_all(argv[0]), it.deref_all(argv[1])
    return a.idx <= b.idx


@model('max_level')
def m_max_level(it, argv, text):
    return EnumV('LevelFilter', 'Off', 0, ())


@model('loc')
def m_log_loc(it, argv, text):
    return OpaqueV('Location')


@model('log')
def m_log(it, argv, text):
    return UNIT


@model('PartialOrd::gt', 'PartialOrd::lt', 'PartialOrd::ge')
def m_pord(it, argv, text):
    a, b = it.deref_all(argv[0]), it.deref_all(argv[1])
    if isinstance(a, OpaqueV) and a.kind == 'Duration':
        # elapsed time against the progress interval.  Real time is not modelled; when the harness asks for it (env.clock_fork) one
        # environment choice per run decides whether time passes slowly (never due: the default) or quickly (always due)
        env = getattr(it, 'env', None)
        if env is not None and getattr(env, 'clock_fork', False):
            if not hasattr(env, 'clock_fast'):
                env.clock_fast = it.ctx.choose(2, 'clock') == 1
            m_ = text.rsplit('::', 1)[-1]
            return env.clock_fast if m_ in ('gt', 'ge') else not env.clock_fast
        return False
    if isinstance(a, int):
        m = text.rsplit('::', 1)[-1]
        return {'gt': a > b, 'lt': a < b, 'ge': a >= b}[m]
    raise Unsupported(text)


# ----------------------------------------------------------------------------- Clone / Default / Deref / misc identity

@model('Clone::clone', 'Option::cloned', 'Arc::new', 'Rc::new', 'Box::new', '<Arc as Deref>::deref', '<Box as Deref>::deref',
       'must_use', 'Into::into', 'Borrow::borrow', '<Vec as Deref>::deref_shared_value')
def m_clone(it, argv, text):
    v = argv[0]
    if isinstance(v, RefV):
        inner = it.load(v.addr)
        if text.endswith('Option::cloned') or 'Option::<' in text and text.endswith('cloned'):
            return inner
        if '<Arc' in text and 'Deref' in text:
            return v   # &Arc<T> -> &T (Arc is modelled by value)
        return inner
    if isinstance(v, EnumV) and v.ename == 'Option' and 'cloned' in text:
        if v.idx == 0:
            return v
        return some(it.deref_all(v.f[0]))
    return v


@model('Default::default')
def m_default(it, argv, text):
    t = _self_ty(text) or ''
    b = base_type(t)
    if b in ('String', 'PathBuf', 'OsString'):
        return StrV(())
    if b in ('Vec',):
        return VecV(())
    if b in ('HashSet',):
        return MapV((), True)
    if b in ('HashMap',):
        return MapV((), False)
    if b in ('usize', 'u64', 'i32', 'u8', 'u32'):
        return 0
    if b == 'bool':
        return False
    if b in ('Mutex', 'RwLock', 'RefCell', 'Cell'):
        from .parser import split_top as _st
        mm = re.match(r'^[\w:]*?(?:Mutex|RwLock|RefCell|Cell)<(.*)>$', t.strip())
        if mm:
            inner = m_default(it, [], '<%s as Default>::default' % mm.group(1))
            return RefV(it.alloc(inner))          # same representation as Mutex::new
    if b == 'Option':
        return NONE
    raise Unsupported("Default for " + t)


@model('<Vec as Deref>::deref', '<Vec as DerefMut>::deref_mut', 'Vec::as_slice', 'Vec::as_mut_slice', 'Vec::iter_ref',
       '<Vec as AsRef>::as_ref')
def m_vec_deref(it, argv, text):
    r = argv[0]
    v = it.load(r.addr)
    if isinstance(v, VecV):
        return SliceV(r.addr, 0, len(v.e))
    if isinstance(v, StrV):
        return v
    raise Unsupported("Vec deref of %r" % (v,))


@model('AsRef::as_ref')
def m_as_ref(it, argv, text):
    v = it.deref_all(argv[0])
    if isinstance(v, StrV):
        return v
    if isinstance(v, StructV):
        ty, trait, targs, method, selfty = it.m.parse_callee(text)
        fn = it.m.lookup_def(v.name, 'AsRef', targs, 'as_ref')
        if fn is not None:
            a = argv[0]
            # argument may be &&T: pass the innermost reference
            while isinstance(a, RefV) and isinstance(it.load(a.addr), RefV):
                a = it.load(a.addr)
            return it.call_mir(fn, [a])
    raise Unsupported("as_ref on %r (%s)" % (v, text))


# ----------------------------------------------------------------------------- Option / Result

def is_opt(v, name):
    return isinstance(v, EnumV) and v.vname == name


@model('Option::is_some')
def m_is_some(it, argv, text):
    return it.deref_all(argv[0]).idx == 1


@model('Option::is_none')
def m_is_none(it, argv, text):
    return it.deref_all(argv[0]).idx == 0


@model('Result::is_ok')
def m_is_ok(it, argv, text):
    return it.deref_all(argv[0]).idx == 0


@model('Result::is_err')
def m_is_err(it, argv, text):
    return it.deref_all(argv[0]).idx == 1


@model('Option::unwrap', 'Result::unwrap', 'Option::expect', 'Result::expect')
def m_unwrap(it, argv, text):
    v = argv[0]
    if v.vname in ('Some', 'Ok'):
        return v.f[0]
    raise RustPanic("called unwrap/expect on %s" % v.vname)


@model('Option::unwrap_or', 'Result::unwrap_or')
def m_unwrap_or(it, argv, text):
    v = argv[0]
    return v.f[0] if v.vname in ('Some', 'Ok') else argv[1]


@model('Option::unwrap_or_default', 'Result::unwrap_or_default')
def m_unwrap_or_default(it, argv, text):
    v = argv[0]
    if v.vname in ('Some', 'Ok'):
        return v.f[0]
    t = text.split('::unwrap_or_default')[0]
    m = re.search(r'<(.*)>', t)
    inner = base_type(split_top(m.group(1))[0]) if m else ''
    if inner in ('String', 'PathBuf', 'str', 'OsString', 'OsStr', 'Path') or (m and split_top(m.group(1))[0].strip() in ('&str', "&'static str")):
        return StrV(())
    if inner == 'Vec' or ('Vec<' in text.split('::unwrap_or_default')[0] and v.ename == 'Result'):
        return VecV(())
    if inner in ('usize', 'u64', 'u32', 'u16', 'u8', 'i8', 'i16', 'i32', 'i64', 'isize', 'u128', 'i128'):
        return 0
    if inner == 'bool':
        return False
    if inner in ('HashSet',):
        return MapV((), True)
    if inner in ('HashMap',):
        return MapV((), False)
    if inner in ('Option',):
        return NONE
    raise Unsupported("unwrap_or_default for " + text)


@model('Option::unwrap_or_else', 'Result::unwrap_or_else')
def m_unwrap_or_else(it, argv, text):
    v = argv[0]
    if v.vname in ('Some', 'Ok'):
        return v.f[0]
    if v.ename == 'Result':
        return it.call_value(argv[1], [v.f[0]])
    return it.call_value(argv[1], [])


@model('Option::take')
def m_take(it, argv, text):
    r = argv[0]
    v = it.load(r.addr)
    it.store(r.addr, NONE)
    return v


@model('Option::map')
def m_opt_map(it, argv, text):
    v = argv[0]
    if v.idx == 0:
        return v
    return some(it.call_value(argv[1], [v.f[0]]))


@model('Option::ok_or_else')
def m_ok_or_else(it, argv, text):
    v = argv[0]
    if v.idx == 1:
        return ok(v.f[0])
    return err(it.call_value(argv[1], []))


@model('Option::ok_or')
def m_ok_or(it, argv, text):
    v = argv[0]
    if v.idx == 1:
        return ok(v.f[0])
    return err(argv[1])


@model('Option::as_ref', 'Option::as_mut', 'Option::as_deref')
def m_opt_as_ref(it, argv, text):
    r = argv[0]
    v = it.load(r.addr)
    if v.idx == 0:
        return NONE
    return some(RefV(r.addr.field(0)))


@model('Result::map')
def m_res_map(it, argv, text):
    v = argv[0]
    if v.idx == 1:
        return v
    return ok(it.call_value(argv[1], [v.f[0]]))


@model('Result::map_err')
def m_res_map_err(it, argv, text):
    v = argv[0]
    if v.idx == 0:
        return v
    return err(it.call_value(argv[1], [v.f[0]]))


@model('Result::and_then')
def m_res_and_then(it, argv, text):
    v = argv[0]
    if v.idx == 1:
        return v
    return it.call_value(argv[1], [v.f[0]])


@model('Result::or_else')
def m_res_or_else(it, argv, text):
    v = argv[0]
    if v.idx == 0:
        return v
    return it.call_value(argv[1], [v.f[0]])


@model('Result::ok')
def m_res_ok(it, argv, text):
    v = argv[0]
    return some(v.f[0]) if v.idx == 0 else NONE


@model('Try::branch')
def m_try_branch(it, argv, text):
    v = argv[0]
    if v.ename == 'Result':
        if v.idx == 0:
            return EnumV('ControlFlow', 'Continue', 0, (v.f[0],))
        return EnumV('ControlFlow', 'Break', 1, (err(v.f[0]),))
    if v.ename == 'Option':
        if v.idx == 1:
            return EnumV('ControlFlow', 'Continue', 0, (v.f[0],))
        return EnumV('ControlFlow', 'Break', 1, (NONE,))
    raise Unsupported("Try::branch on %r" % (v,))


@model('FromResidual::from_residual')
def m_from_residual(it, argv, text):
    v = argv[0]
    if strip_lifetimes(text).lstrip().startswith('<Option<'):
        return NONE               # the residual of an Option is None, however the constant operand was spelled
    if v.ename == 'Result':
        e = v.f[0]
        # `?` converts the error with From: identical types here except Report<C> from C
        m = re.match(r'^<Result<.*, (.*)> as FromResidual<Result<Infallible, (.*)>>>::from_residual', strip_lifetimes(text))
        if m and norm_ty(m.group(1)) != norm_ty(m.group(2)):
            tgt = base_type(m.group(1))
            if tgt == 'Report' and not (isinstance(e, OpaqueV) and e.kind == 'Report'):
                e = OpaqueV('Report', (e,))
            elif tgt == 'Box':
                pass
            else:
                raise Unsupported("error conversion in ?: " + text)
        return err(e)
    if v.ename == 'Option':
        return NONE
    raise Unsupported("from_residual on %r" % (v,))


def strip_lifetimes(t):
    return re.sub(r"'\w+ ?", '', t)


# ----------------------------------------------------------------------------- error_stack

def mk_report(ctxv):
    return OpaqueV('Report', (ctxv,))


@model('Report::new', '<Report as From>::from')
def m_report_new(it, argv, text):
    return mk_report(argv[0])


@model('Report::change_context')
def m_report_change_context(it, argv, text):
    r = argv[0]
    return OpaqueV('Report', r.data + (argv[1],))


@model('Report::attach_printable', 'Report::attach')
def m_report_attach(it, argv, text):
    return argv[0]


@model('ResultExt::change_context')
def m_rx_change_context(it, argv, text):
    v = argv[0]
    if v.idx == 0:
        return v
    e = v.f[0]
    chain = e.data if isinstance(e, OpaqueV) and e.kind == 'Report' else (e,)
    return err(OpaqueV('Report', chain + (argv[1],)))


@model('ResultExt::change_context_lazy')
def m_rx_change_context_lazy(it, argv, text):
    v = argv[0]
    if v.idx == 0:
        return v
    e = v.f[0]
    chain = e.data if isinstance(e, OpaqueV) and e.kind == 'Report' else (e,)
    c = it.call_value(argv[1], [])
    return err(OpaqueV('Report', chain + (c,)))


@model('ResultExt::attach_printable', 'ResultExt::attach')
def m_rx_attach(it, argv, text):
    v = argv[0]
    if v.idx == 0:
        return v
    e = v.f[0]
    if not (isinstance(e, OpaqueV) and e.kind == 'Report'):
        e = OpaqueV('Report', (e,))
    return err(e)


@model('ResultExt::attach_printable_lazy', 'ResultExt::attach_lazy')
def m_rx_attach_lazy(it, argv, text):
    v = argv[0]
    if v.idx == 0:
        return v
    it.call_value(argv[1], [])       # message closure is executed (its formatting code can panic)
    e = v.f[0]
    if not (isinstance(e, OpaqueV) and e.kind == 'Report'):
        e = OpaqueV('Report', (e,))
    return err(e)


# ----------------------------------------------------------------------------- Vec / slices

@model('Vec::new', 'Vec::with_capacity')
def m_vec_new(it, argv, text):
    if 'Vec::<u8>' in text:
        return VecV(())
    return VecV(())


@model('Vec::push')
def m_vec_push(it, argv, text):
    r = argv[0]
    v = it.load(r.addr)
    it.store(r.addr, VecV(v.e + (argv[1],)))
    return UNIT


@model('Vec::len', 'slice::len')
def m_vec_len(it, argv, text):
    v = it.deref_all(argv[0])
    if isinstance(v, StrV):
        return len(v.b)
    return len(it.as_seq(argv[0]))


@model('Vec::is_empty', 'slice::is_empty')
def m_vec_is_empty(it, argv, text):
    return len(it.as_seq(argv[0])) == 0


@model('slice::first', 'Vec::first')
def m_first(it, argv, text):
    refs = it.seq_elem_refs(argv[0])
    return some(refs[0]) if refs else NONE


@model('slice::last', 'Vec::last')
def m_last(it, argv, text):
    refs = it.seq_elem_refs(argv[0])
    return some(refs[-1]) if refs else NONE


@model('slice::iter', 'Vec::iter')
def m_slice_iter(it, argv, text):
    return IterV('list', (tuple(it.seq_elem_refs(argv[0])), 0))


@model('<Vec as IntoIterator>::into_iter')
def m_vec_into_iter(it, argv, text):
    v = argv[0]
    if isinstance(v, RefV):
        return m_slice_iter(it, argv, text)
    return IterV('list', (v.e, 0))


@model('IntoIterator::into_iter')
def m_into_iter(it, argv, text):
    v = argv[0]
    if isinstance(v, IterV):
        return v
    if isinstance(v, StructV) and v.name in ('Range', 'RangeInclusive'):
        return v
    if isinstance(v, VecV):
        return IterV('list', (v.e, 0))
    if isinstance(v, (RefV, SliceV)):
        inner = it.deref_all(v) if isinstance(v, RefV) else v
        if isinstance(inner, MapV):
            return map_iter(it, v, by_ref=True)
        return m_slice_iter(it, argv, text)
    if isinstance(v, MapV):
        return map_iter(it, v, by_ref=False)
    raise Unsupported("into_iter on %r" % (v,))


@model('<Vec as Index>::index', '<slice as Index>::index', '<Vec as IndexMut>::index_mut')
def m_vec_index(it, argv, text):
    idx = argv[1]
    base = argv[0]
    if isinstance(idx, int):
        refs = it.seq_elem_refs(base)
        if not 0 <= idx < len(refs):
            raise RustPanic("index out of bounds: the len is %d but the index is %d" % (len(refs), idx))
        return refs[idx]
    if isinstance(idx, StructV):
        if isinstance(base, RefV):
            inner = it.load(base.addr)
            if isinstance(inner, VecV):
                base = SliceV(base.addr, 0, len(inner.e))
            else:
                base = inner
        n = base.end - base.start
        if idx.name == 'RangeTo':
            a, b = 0, idx.f[0]
        elif idx.name == 'RangeFrom':
            a, b = idx.f[0], n
        elif idx.name == 'Range':
            a, b = idx.f
        else:
            raise Unsupported("slice index " + idx.name)
        if a > b or b > n:
            raise RustPanic("slice index out of range [%d..%d] of %d" % (a, b, n))
        return SliceV(base.addr, base.start + a, base.start + b)
    raise Unsupported("index with %r" % (idx,))


@model('from_elem')
def m_from_elem(it, argv, text):
    return VecV((argv[0],) * argv[1])


@model('Vec::extend', 'Extend::extend')
def m_extend(it, argv, text):
    r = argv[0]
    v = it.load(r.addr)
    if isinstance(v, MapV):
        # <HashSet/HashMap/BTree* as Extend>::extend resolved through the trait: dispatch on the receiver
        for k in ('BTreeSet::extend', 'HashSet::extend'):
            if k in MODELS and ('BTree' in text) == k.startswith('BTree'):
                return MODELS[k](it, argv, text)
        return MODELS['HashSet::extend'](it, argv, text)
    if isinstance(v, StrV):
        out = v.b
        for x in drain(it, m_into_iter(it, [argv[1]], text)):
            x = it.deref_all(x)
            out = out + (x.b if isinstance(x, StrV) else (x,) if not isinstance(x, int) or x < 128 else tuple(chr(x).encode()))
        it.store(r.addr, StrV(out))
        return UNIT
    items = drain(it, m_into_iter(it, [argv[1]], text))
    it.store(r.addr, VecV(v.e + tuple(items)))
    return UNIT


@model('Box::new_uninit')
def m_box_new_uninit(it, argv, text):
    return RefV(it.alloc(OpaqueV('uninit')))


@model('box_assume_init_into_vec_unsafe')
def m_box_into_vec(it, argv, text):
    v = it.load(argv[0].addr)
    if not isinstance(v, VecV):
        raise Unsupported("box_assume_init_into_vec_unsafe on %r" % (v,))
    return v


@model('slice::sort_by', 'Vec::sort_by')
def m_sort_by(it, argv, text):
    s = argv[0]
    if isinstance(s, RefV):
        inner = it.load(s.addr)
        s = SliceV(s.addr, 0, len(inner.e))
    base = it.load(s.addr)
    elems = list(base.e[s.start:s.end])
    cmpf = argv[1]
    # stable insertion sort using the comparator (documented: stable)
    out = []
    for x in elems:
        pos = len(out)
        while pos > 0:
            r = it.call_value(cmpf, [RefV(it.alloc(x)), RefV(it.alloc(out[pos - 1]))])
            if r.vname == 'Less':
                pos -= 1
            else:
                break
        out.insert(pos, x)
    it.store(s.addr, VecV(base.e[:s.start] + tuple(out) + base.e[s.end:]))
    return UNIT


@model('slice::to_vec', 'slice::to_owned')
def m_to_vec(it, argv, text):
    return VecV(tuple(it.as_seq(argv[0])))


# ----------------------------------------------------------------------------- iterators

def iter_next(it, iv):
    """-> (item or None, new IterV)"""
    k = iv.kind
    d = iv.data
    if k == 'list':
        items, pos = d
        if pos >= len(items):
            return None, iv
        return items[pos], IterV('list', (items, pos + 1))
    if k == 'skip':
        inner, n = d
        while n > 0:
            x, inner = iter_next(it, inner)
            if x is None:
                return None, IterV('skip', (inner, 0))
            n -= 1
        x, inner = iter_next(it, inner)
        return x, IterV('skip', (inner, 0))
    if k == 'enumerate':
        inner, c = d
        x, inner = iter_next(it, inner)
        if x is None:
            return None, IterV('enumerate', (inner, c))
        return TupleV((c, x)), IterV('enumerate', (inner, c + 1))
    if k == 'map':
        inner, f = d
        x, inner = iter_next(it, inner)
        if x is None:
            return None, IterV('map', (inner, f))
        return it.call_value(f, [x]), IterV('map', (inner, f))
    if k == 'filter_map':
        inner, f = d
        while True:
            x, inner = iter_next(it, inner)
            if x is None:
                return None, IterV('filter_map', (inner, f))
            r = it.call_value(f, [x])
            if r.idx == 1:
                return r.f[0], IterV('filter_map', (inner, f))
    if k == 'filter':
        inner, f = d
        while True:
            x, inner = iter_next(it, inner)
            if x is None:
                return None, IterV('filter', (inner, f))
            r = it.call_value(f, [RefV(it.alloc(x))])
            if truth(it, r):
                return x, IterV('filter', (inner, f))
    if k == 'cloned':
        inner, = d
        x, inner = iter_next(it, inner)
        if x is None:
            return None, IterV('cloned', (inner,))
        return it.deref_all(x), IterV('cloned', (inner,))
    if k == 'env':
        return it.env.iter_next(it, iv)
    raise Unsupported("iterator kind " + k)


def drain(it, iv):
    out = []
    while True:
        x, iv = iter_next(it, iv)
        if x is None:
            return out
        out.append(x)


@model('Iterator::next')
def m_iter_next(it, argv, text):
    r = argv[0]
    iv = it.load(r.addr)
    if isinstance(iv, StructV) and iv.name in ('Range', 'RangeInclusive'):
        if iv.name == 'Range':
            a, b = iv.f
            if a >= b:
                return NONE
            it.store(r.addr, StructV('Range', (a + 1, b)))
            return some(a)
        a, b, done = iv.f
        if done or a > b:
            return NONE
        it.store(r.addr, StructV('RangeInclusive', (a + 1, b, a == b)) if a < b else StructV('RangeInclusive', (a, b, True)))
        return some(a)
    x, iv2 = iter_next(it, iv)
    it.store(r.addr, iv2)
    if x is None:
        return NONE
    return some(x)


@model('Iterator::skip')
def m_iter_skip(it, argv, text):
    return IterV('skip', (argv[0], argv[1]))


@model('Iterator::enumerate')
def m_iter_enumerate(it, argv, text):
    return IterV('enumerate', (argv[0], 0))


@model('Iterator::map')
def m_iter_map(it, argv, text):
    return IterV('map', (argv[0], argv[1]))


@model('Iterator::filter_map')
def m_iter_filter_map(it, argv, text):
    return IterV('filter_map', (argv[0], argv[1]))


@model('Iterator::filter')
def m_iter_filter(it, argv, text):
    return IterV('filter', (argv[0], argv[1]))


@model('Iterator::cloned', 'Iterator::copied')
def m_iter_cloned(it, argv, text):
    return IterV('cloned', (argv[0],))


@model('Iterator::collect')
def m_iter_collect(it, argv, text):
    items = drain(it, argv[0])
    m = re.search(r'collect::<(.*)>$', text)
    tgt = base_type(m.group(1)) if m else 'Vec'
    if tgt == 'Vec':
        return VecV(tuple(items))
    if tgt == 'String':
        out = []
        for x in items:
            out.extend(it.as_str(x).b)
        return StrV(tuple(out))
    if tgt == 'HashSet':
        mv = MapV((), True)
        for x in items:
            mv = map_insert(it, mv, x, UNIT)[0]
        return mv
    if tgt == 'HashMap':
        mv = MapV((), False)
        for x in items:
            mv = map_insert(it, mv, x.f[0], x.f[1])[0]
        return mv
    raise Unsupported("collect into " + tgt)


@model('Iterator::count')
def m_iter_count(it, argv, text):
    return len(drain(it, argv[0]))


# ----------------------------------------------------------------------------- HashMap / HashSet (association lists)

def map_find(it, mv, key):
    for i, kv in enumerate(mv.items):
        if value_eq(it, kv.f[0], key):
            return i
    return None


def map_insert(it, mv, key, val):
    i = map_find(it, mv, key)
    if i is None:
        return MapV(mv.items + (TupleV((key, val)),), mv.is_set), None
    items = list(mv.items)
    old = items[i].f[1]
    items[i] = TupleV((items[i].f[0], val))
    return MapV(tuple(items), mv.is_set), old


def map_order(it, n):
    """iteration order of a hash container with n entries: a fork point when it.hashorder == 'permute'"""
    order = list(range(n))
    if it.hashorder == 'permute' and n > 1:
        out = []
        rem = order
        while len(rem) > 1:
            k = it.ctx.choose(len(rem), 'hashorder')
            out.append(rem[k])
            rem = rem[:k] + rem[k + 1:]
        out.extend(rem)
        return out
    if it.hashorder == 'reverse':
        return order[::-1]
    return order


def map_iter(it, v, by_ref, what='items'):
    if by_ref:
        r = v
        while isinstance(it.load(r.addr), RefV):
            r = it.load(r.addr)
        mv = it.load(r.addr)
        order = map_order(it, len(mv.items))
        out = []
        for i in order:
            ka = RefV(Addr(r.addr.root, r.addr.proj + (('i', i), ('f', 0))))
            va = RefV(Addr(r.addr.root, r.addr.proj + (('i', i), ('f', 1))))
            if mv.is_set or what == 'keys':
                out.append(ka)
            elif what == 'values':
                out.append(va)
            else:
                out.append(TupleV((ka, va)))
        return IterV('list', (tuple(out), 0))
    mv = v
    order = map_order(it, len(mv.items))
    out = []
    for i in order:
        kv = mv.items[i]
        out.append(kv.f[0] if mv.is_set else kv)
    return IterV('list', (tuple(out), 0))


@model('HashMap::new', 'HashMap::default')
def m_map_new(it, argv, text):
    return MapV((), False)


@model('HashSet::new', 'HashSet::default')
def m_set_new(it, argv, text):
    return MapV((), True)


@model('HashMap::insert')
def m_map_insert(it, argv, text):
    r = argv[0]
    mv, old = map_insert(it, it.load(r.addr), argv[1], argv[2])
    it.store(r.addr, mv)
    return NONE if old is None else some(old)


@model('HashSet::insert')
def m_set_insert(it, argv, text):
    r = argv[0]
    mv0 = it.load(r.addr)
    if map_find(it, mv0, argv[1]) is not None:
        return False
    it.store(r.addr, MapV(mv0.items + (TupleV((argv[1], UNIT)),), True))
    return True


@model('HashSet::contains', 'HashMap::contains_key')
def m_set_contains(it, argv, text):
    mv = it.deref_all(argv[0])
    return map_find(it, mv, it.deref_all(argv[1])) is not None


@model('HashMap::remove', 'HashSet::take')
def m_map_remove(it, argv, text):
    r = argv[0]
    mv = it.load(r.addr)
    i = map_find(it, mv, it.deref_all(argv[1]))
    if i is None:
        return NONE
    it.store(r.addr, MapV(mv.items[:i] + mv.items[i + 1:], mv.is_set))
    return some(mv.items[i].f[1])


@model('HashSet::remove')
def m_set_remove(it, argv, text):
    r = argv[0]
    mv = it.load(r.addr)
    i = map_find(it, mv, it.deref_all(argv[1]))
    if i is None:
        return False
    it.store(r.addr, MapV(mv.items[:i] + mv.items[i + 1:], True))
    return True


@model('HashMap::get', 'HashMap::get_mut')
def m_map_get(it, argv, text):
    r = argv[0]
    while isinstance(it.load(r.addr), RefV):
        r = it.load(r.addr)
    mv = it.load(r.addr)
    i = map_find(it, mv, it.deref_all(argv[1]))
    if i is None:
        return NONE
    return some(RefV(Addr(r.addr.root, r.addr.proj + (('i', i), ('f', 1)))))


@model('HashMap::len', 'HashSet::len')
def m_map_len(it, argv, text):
    return len(it.deref_all(argv[0]).items)


@model('HashMap::is_empty', 'HashSet::is_empty')
def m_map_is_empty(it, argv, text):
    return len(it.deref_all(argv[0]).items) == 0


@model('HashMap::iter', 'HashSet::iter', 'HashMap::iter_mut')
def m_map_iter(it, argv, text):
    return map_iter(it, argv[0], True)


@model('HashMap::keys')
def m_map_keys(it, argv, text):
    return map_iter(it, argv[0], True, 'keys')


@model('HashMap::values', 'HashMap::values_mut')
def m_map_values(it, argv, text):
    return map_iter(it, argv[0], True, 'values')


@model('HashMap::entry')
def m_map_entry(it, argv, text):
    r = argv[0]
    mv = it.load(r.addr)
    i = map_find(it, mv, argv[1])
    if i is None:
        return EnumV('Entry', 'Vacant', 1, (OpaqueV('entry', (r.addr, argv[1], None)),))
    return EnumV('Entry', 'Occupied', 0, (OpaqueV('entry', (r.addr, argv[1], i)),))


def _entry_or(it, ent, mk):
    addr, key, i = ent.f[0].data
    mv = it.load(addr)
    if i is None:
        val = mk()
        mv = it.load(addr)      # mk may not touch the map, but reload for safety
        it.store(addr, MapV(mv.items + (TupleV((key, val)),), mv.is_set))
        i = len(mv.items)
    return RefV(Addr(addr.root, addr.proj + (('i', i), ('f', 1))))


@model('Entry::or_insert')
def m_entry_or_insert(it, argv, text):
    return _entry_or(it, argv[0], lambda: argv[1])


@model('Entry::or_default')
def m_entry_or_default(it, argv, text):
    m = re.search(r"Entry::<(.*)>::or_default", strip_lifetimes(text))
    parts = m.group(1) if m else ''
    def mk():
        if 'HashSet' in parts.split(',', 1)[-1]:
            return MapV((), True)
        if 'Vec' in parts.split(',', 1)[-1]:
            return VecV(())
        if 'usize' in parts.split(',', 1)[-1]:
            return 0
        raise Unsupported("or_default for " + text)
    return _entry_or(it, argv[0], mk)


@model('Entry::or_insert_with')
def m_entry_or_insert_with(it, argv, text):
    return _entry_or(it, argv[0], lambda: it.call_value(argv[1], []))


# ----------------------------------------------------------------------------- integers

@model('<&usize as Add>::add', 'Add::add')
def m_add(it, argv, text):
    a, b = it.deref_all(argv[0]), it.deref_all(argv[1])
    r = a + b
    if r >= 1 << 64:
        raise RustPanic("attempt to add with overflow")
    return r


@model('usize::checked_sub')
def m_checked_sub(it, argv, text):
    a, b = argv
    return some(a - b) if a >= b else NONE


@model('usize::saturating_sub', 'u64::saturating_sub')
def m_sat_sub(it, argv, text):
    a, b = argv
    return max(a - b, 0)


@model('usize::min', 'Ord::min', 'min')
def m_min(it, argv, text):
    return min(argv[0], argv[1])


@model('usize::max', 'Ord::max', 'max')
def m_max(it, argv, text):
    return max(argv[0], argv[1])


# ----------------------------------------------------------------------------- formatting

def display_value(it, ref, tytext):
    """Display of a value -> StrV"""
    v = it.deref_all(ref)
    if isinstance(v, StrV):
        return v
    if isinstance(v, EnumV) and v.ename == 'Cow':
        return it.as_str(v)
    if isinstance(v, bool):
        return str_of('true' if v else 'false')
    if isinstance(v, int):
        if tytext.strip().lstrip('&').strip() == 'char':
            return str_of(chr(v))
        return str_of(str(v))
    if isinstance(v, CharV):
        return StrV((v.b,))
    if isinstance(v, OpaqueV):
        if v.kind == 'PathDisplay':
            return v.data
        if v.kind == 'float':
            return str_of('0.00')
        return str_of('<%s>' % v.kind)
    if isinstance(v, (StructV, EnumV)):
        name = v.name if isinstance(v, StructV) else v.ename
        fn = it.m.lookup_def(name, 'Display', None, 'fmt')
        if fn is None:
            raise Unsupported("no Display impl for " + name)
        buf = it.alloc(StrV(()))
        r = ref
        while isinstance(r, RefV) and isinstance(it.load(r.addr), RefV):
            r = it.load(r.addr)
        if not isinstance(r, RefV):
            r = RefV(it.alloc(v))
        res = it.call_mir(fn, [r, RefV(buf)])
        return it.load(buf)
    raise Unsupported("Display of %r" % (v,))


def run_format(it, fa):
    """fa: OpaqueV('fmtargs', (template StrV|None, literal StrV|None, args tuple)) -> bytes tuple"""
    tmpl, lit, args = fa.data
    if lit is not None:
        return lit.b
    t = tmpl.b
    out = []
    i = 0
    argi = 0
    while True:
        n = t[i]
        i += 1
        if n == 0:
            break
        if n < 0x80:
            out.extend(t[i:i + n])
            i += n
        elif n == 0x80:
            ln = t[i] | (t[i + 1] << 8)
            i += 2
            out.extend(t[i:i + ln])
            i += ln
        else:
            flags = width = prec = None
            if n & 1:
                flags = int.from_bytes(bytes(t[i:i + 4]), 'little')
                i += 4
            if n & 2:
                width = t[i] | (t[i + 1] << 8)
                i += 2
            if n & 4:
                prec = t[i] | (t[i + 1] << 8)
                i += 2
            if n & 8:
                argi = t[i] | (t[i + 1] << 8)
                i += 2
            a = args[argi]
            argi += 1
            kind, tytext, ref = a.data
            if kind == 'display':
                s = display_value(it, ref, tytext).b
            else:
                s = debug_value(it, ref)
            if width is not None and not (n & 16):
                nchars = sum(1 for b in s if not (isinstance(b, int) and (b & 0xC0) == 0x80))
                pad = width - nchars
                if pad > 0:
                    align_right = flags is not None and ((flags >> 29) & 3) == 1
                    s = (tuple([32] * pad) + tuple(s)) if align_right else (tuple(s) + tuple([32] * pad))
            out.extend(s)
    return tuple(out)


def debug_value(it, ref):
    v = it.deref_all(ref)
    if isinstance(v, StrV):
        return (34,) + v.b + (34,)
    return tuple(b'<dbg>')


@model('Argument::new_display')
def m_new_display(it, argv, text):
    m = re.search(r'new_display::<(.*)>$', text)
    return OpaqueV('fmtarg', ('display', m.group(1) if m else '', argv[0]))


@model('Argument::new_debug')
def m_new_debug(it, argv, text):
    return OpaqueV('fmtarg', ('debug', '', argv[0]))


@model('Arguments::new')
def m_arguments_new(it, argv, text):
    tmpl = it.as_str(argv[0])
    args = tuple(it.as_seq(argv[1]))
    return OpaqueV('fmtargs', (tmpl, None, args))


@model('Arguments::from_str', 'Arguments::from_str_nonconst')
def m_arguments_from_str(it, argv, text):
    return OpaqueV('fmtargs', (None, it.as_str(argv[0]), ()))


@model('format')
def m_format(it, argv, text):
    return StrV(run_format(it, argv[0]))


@model('Formatter::write_fmt', '<String as Write>::write_fmt')
def m_formatter_write_fmt(it, argv, text):
    r = argv[0]
    while isinstance(it.load(r.addr), RefV):
        r = it.load(r.addr)
    cur = it.load(r.addr)
    add = run_format(it, argv[1])
    cur = it.load(r.addr)
    it.store(r.addr, StrV(cur.b + add))
    return ok(UNIT)


@model('Formatter::write_str', '<String as Write>::write_str')
def m_formatter_write_str(it, argv, text):
    r = argv[0]
    while isinstance(it.load(r.addr), RefV):
        r = it.load(r.addr)
    cur = it.load(r.addr)
    it.store(r.addr, StrV(cur.b + it.as_str(argv[1]).b))
    return ok(UNIT)


@model('Formatter::debug_struct_field1_finish', 'Formatter::debug_struct_field2_finish',
       'Formatter::debug_struct_field3_finish', 'Formatter::debug_struct_field4_finish',
       'Formatter::debug_struct_fields_finish', 'Formatter::debug_tuple_field1_finish',
       'Formatter::debug_tuple_field2_finish', 'Formatter::pad')
def m_formatter_debug(it, argv, text):
    return ok(UNIT)


@model('_eprint', '_print')
def m_eprint(it, argv, text):
    run_format(it, argv[0]) if False else None
    return UNIT


@model('panic', 'panic_fmt', 'panic_display', 'begin_panic', 'unreachable_display', 'panic_explicit',
       'assert_failed', 'expect_failed', 'unwrap_failed', 'panic_str_2015', 'panic_nounwind')
def m_panic(it, argv, text):
    msg = ''
    try:
        a = it.deref_all(argv[0])
        if isinstance(a, StrV) and all(isinstance(b, int) for b in a.b):
            msg = bytes(a.b).decode('utf8', 'replace')
        elif isinstance(a, OpaqueV) and a.kind == 'fmtargs':
            bs = run_format(it, a)
            msg = bytes(b if isinstance(b, int) else 63 for b in bs).decode('utf8', 'replace')
    except Exception:
        pass
    raise RustPanic("explicit panic: " + msg)
