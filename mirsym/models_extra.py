"""Third batch of models: APIs a realistic refactor of txtpp is likely to reach for (ordered maps, deques, OpenOptions,
directory entries, path components, atomics, mutexes, peekable iterators, blocking receive)."""
import re
from .values import *
from .core import (Unsupported, RustPanic, Violation, is_sym, t_eq, t_not, t_and, t_or, t_in, t_bytes_eq)
from .interp import BoolT, base_type
from . import models_std as S
from . import models_more as M
from . import models_env as E
from .models_std import model, truth, bytes_eq, value_eq, iter_next, drain


# ----------------------------------------------------------------------------- ordered maps / sets (BTreeMap, BTreeSet)

def key_bytes(it, k):
    """a concrete ordering key for map keys (strings / paths / AbsPath / integers)"""
    k = it.deref_all(k)
    if isinstance(k, StrV):
        if any(is_sym(b) for b in k.b):
            raise Unsupported("ordered container with symbolic key bytes")
        return (0, bytes(k.b))
    if isinstance(k, int):
        return (1, k)
    if isinstance(k, StructV):
        return (2, tuple(key_bytes(it, f) for f in (k.f[1:] if k.name == 'AbsPath' else k.f)))
    if isinstance(k, TupleV):
        return (3, tuple(key_bytes(it, f) for f in k.f))
    raise Unsupported("ordering of %r" % (k,))


def sorted_map(it, mv):
    items = sorted(mv.items, key=lambda kv: key_bytes(it, kv.f[0]))
    return MapV(tuple(items), mv.is_set)


@model('BTreeMap::new', 'BTreeMap::default')
def m_btm_new(it, argv, text):
    return MapV((), False)


@model('BTreeSet::new', 'BTreeSet::default')
def m_bts_new(it, argv, text):
    return MapV((), True)


def _reg_btree():
    pairs = [('insert', 'HashMap::insert', 'HashSet::insert'), ('remove', 'HashMap::remove', 'HashSet::remove'),
             ('get', 'HashMap::get', 'HashSet::get'), ('get_mut', 'HashMap::get_mut', None), ('contains_key', 'HashSet::contains', None),
             ('contains', None, 'HashSet::contains'), ('len', 'HashMap::len', 'HashMap::len'), ('is_empty', 'HashMap::is_empty', 'HashMap::is_empty'),
             ('entry', 'HashMap::entry', None), ('clear', 'Vec::clear', 'Vec::clear'), ('retain', 'HashMap::retain', 'HashMap::retain'),
             ('extend', 'HashSet::extend', 'HashSet::extend')]
    for name, hm, hs in pairs:
        for prefix, src in (('BTreeMap', hm), ('BTreeSet', hs)):
            if src is None or src not in S.MODELS:
                continue
            base = S.MODELS[src]

            def mk(base):
                def f(it, argv, text):
                    r = base(it, argv, text)
                    a = argv[0]
                    if isinstance(a, RefV):
                        cur = it.load(a.addr)
                        if isinstance(cur, MapV):
                            it.store(a.addr, sorted_map(it, cur))
                    return r
                return f
            S.MODELS['%s::%s' % (prefix, name)] = mk(base)
    for nm in ('iter', 'keys', 'values', 'iter_mut', 'values_mut'):
        S.MODELS['BTreeMap::' + nm] = S.MODELS['HashMap::' + (nm if nm != 'iter_mut' else 'iter')]
    S.MODELS['BTreeSet::iter'] = S.MODELS['HashSet::iter']


@model('BTreeMap::first_key_value', 'BTreeSet::first')
def m_bt_first(it, argv, text):
    mv = it.deref_all(argv[0])
    if not mv.items:
        return NONE
    kv = mv.items[0]
    return some(kv.f[0] if mv.is_set else TupleV((kv.f[0], kv.f[1])))


@model('BTreeMap::pop_first', 'BTreeSet::pop_first')
def m_bt_pop_first(it, argv, text):
    mv = it.load(argv[0].addr)
    if not mv.items:
        return NONE
    it.store(argv[0].addr, MapV(mv.items[1:], mv.is_set))
    kv = mv.items[0]
    return some(kv.f[0] if mv.is_set else kv)


# ----------------------------------------------------------------------------- VecDeque

@model('VecDeque::new', 'VecDeque::with_capacity', 'VecDeque::default')
def m_vd_new(it, argv, text):
    return VecV(())


@model('VecDeque::push_back')
def m_vd_push_back(it, argv, text):
    return S.m_vec_push(it, argv, text)


@model('VecDeque::push_front')
def m_vd_push_front(it, argv, text):
    v = it.load(argv[0].addr)
    it.store(argv[0].addr, VecV((argv[1],) + v.e))
    return UNIT


@model('VecDeque::pop_front')
def m_vd_pop_front(it, argv, text):
    v = it.load(argv[0].addr)
    if not v.e:
        return NONE
    it.store(argv[0].addr, VecV(v.e[1:]))
    return some(v.e[0])


@model('VecDeque::pop_back')
def m_vd_pop_back(it, argv, text):
    return M.m_vec_pop(it, argv, text)


@model('VecDeque::len', 'VecDeque::is_empty', 'VecDeque::iter', 'VecDeque::front', 'VecDeque::back', 'VecDeque::clear',
       'VecDeque::contains')
def m_vd_misc(it, argv, text):
    name = text.split('::<')[0].rsplit('::', 1)[-1]
    name = re.sub(r'<.*', '', name)
    target = {'len': 'Vec::len', 'is_empty': 'Vec::is_empty', 'iter': 'Vec::iter', 'front': 'slice::first', 'back': 'slice::last',
              'clear': 'Vec::clear', 'contains': 'slice::contains'}[name]
    return S.MODELS[target](it, argv, text)


# ----------------------------------------------------------------------------- OpenOptions, directory entries, path components

@model('OpenOptions::new', 'File::options')
def m_oo_new(it, argv, text):
    return StructV('OpenOptions', (False, False, False, False, False, False))   # read write append truncate create create_new


def _oo_set(k):
    def f(it, argv, text):
        r = argv[0]
        o = it.load(r.addr)
        fl = list(o.f)
        fl[k] = bool(argv[1])
        it.store(r.addr, StructV('OpenOptions', tuple(fl)))
        return r
    return f


for _k, _n in enumerate(('read', 'write', 'append', 'truncate', 'create', 'create_new')):
    S.MODELS['OpenOptions::' + _n] = _oo_set(_k)


@model('OpenOptions::open')
def m_oo_open(it, argv, text):
    o = it.deref_all(argv[0])
    rd, wr, ap, tr, cr, cn = o.f
    env = E.env_of(it)
    p = E.path_arg(it, argv[1])
    comps = env.norm(p)
    n = env.find(comps)
    if n is None:
        if not (cr or cn) or not (wr or ap):
            return S.err(E.io_error('NotFound'))
        par = env.find(comps[:-1])
        if par is None or par[1] != 'dir':
            return S.err(E.io_error('NotFound'))
        if env.maybe_fail('create', p):
            return S.err(E.io_error('PermissionDenied'))
        env.nodes.append([comps, 'file', ()])
        env.log.append(('create', E.printable(E.comps_to_bytes(comps))))
    else:
        if cn:
            return S.err(E.io_error('AlreadyExists'))
        if n[1] == 'dir' and (wr or ap):
            return S.err(E.io_error('IsADirectory'))
        if env.maybe_fail('open', p):
            return S.err(E.io_error('PermissionDenied'))
        if tr and wr:
            n[2] = ()
            env.log.append(('truncate', E.printable(E.comps_to_bytes(comps))))
    h = env.open_handle(comps, 'w' if (wr or ap) else 'r')
    if wr and not ap:
        env.handles[h]['positional'] = True          # writes go to the handle's offset (0 after open), not to the end
    return S.ok(OpaqueV('File', h))


@model('DirEntry::file_name')
def m_de_file_name(it, argv, text):
    p = it.deref_all(argv[0]).data.b
    r = E.file_name_range(it, p)
    return StrV(p[r[0]:r[1]]) if r else StrV(())


@model('DirEntry::file_type', 'DirEntry::metadata')
def m_de_file_type(it, argv, text):
    env = E.env_of(it)
    p = it.deref_all(argv[0]).data.b
    # DirEntry::file_type / DirEntry::metadata do NOT follow a symbolic link in the last component (std docs)
    n = env.find(env.norm(p), follow=False)
    if n is None:
        return S.err(E.io_error('NotFound'))
    return S.ok(OpaqueV('Metadata', (n[1], len(n[2]) if n[1] == 'file' else 4096)))


@model('FileType::is_dir')
def m_ft_is_dir(it, argv, text):
    return it.deref_all(argv[0]).data[0] == 'dir'


@model('FileType::is_file')
def m_ft_is_file(it, argv, text):
    return it.deref_all(argv[0]).data[0] == 'file'


@model('FileType::is_symlink', 'Metadata::is_symlink')
def m_is_symlink(it, argv, text):
    d = it.deref_all(argv[0])
    return isinstance(d, OpaqueV) and isinstance(d.data, tuple) and d.data[0] == 'symlink'


@model('Path::is_symlink')
def m_path_is_symlink(it, argv, text):
    env = E.env_of(it)
    n = env.find(env.norm(E.path_arg(it, argv[0])), follow=False)
    return n is not None and n[1] == 'symlink'


@model('symlink_metadata', 'Path::symlink_metadata')
def m_symlink_metadata(it, argv, text):
    env = E.env_of(it)
    n = env.find(env.norm(E.path_arg(it, argv[0])), follow=False)
    if n is None:
        return S.err(E.io_error('NotFound'))
    return S.ok(OpaqueV('Metadata', (n[1], len(n[2]) if n[1] == 'file' else 4096)))


@model('PathBuf::pop')
def m_pathbuf_pop(it, argv, text):
    cur = it.load(argv[0].addr).b
    p = E.path_parent(it, cur)
    if p is None:
        return False
    it.store(argv[0].addr, StrV(p))
    return True


@model('PathBuf::set_file_name')
def m_set_file_name(it, argv, text):
    # std: if self.file_name().is_some() { self.pop(); }  self.push(file_name)
    cur = it.load(argv[0].addr).b
    if E.file_name_range(it, cur) is not None:
        par = E.path_parent(it, cur)
        cur = par if par is not None else ()
    it.store(argv[0].addr, StrV(E.path_join(it, tuple(cur), it.as_str(argv[1]).b)))
    return UNIT


@model('Path::with_file_name')
def m_with_file_name(it, argv, text):
    a = it.alloc(it.as_str(argv[0]))
    m_set_file_name(it, [RefV(a), argv[1]], text)
    return it.load(a)


@model('Path::ends_with')
def m_path_ends_with(it, argv, text):
    pa, pc = E.split_components(it, it.as_str(argv[0]).b)
    ba, bc = E.split_components(it, it.as_str(argv[1]).b)
    if ba:
        return pa and len(pc) == len(bc) and all(len(x) == len(y) and bytes_eq(it, x, y) for x, y in zip(pc, bc))
    if len(bc) > len(pc):
        return False
    return all(len(x) == len(y) and bytes_eq(it, x, y) for x, y in zip(pc[len(pc) - len(bc):], bc))


COMPONENT = ['Prefix', 'RootDir', 'CurDir', 'ParentDir', 'Normal']


@model('Path::components', 'Path::iter')
def m_components(it, argv, text):
    is_abs, comps = E.split_components(it, it.as_str(argv[0]).b)
    out = []
    if is_abs:
        out.append(EnumV('Component', 'RootDir', 1, ()))
    for c in comps:
        if E.is_dot(it, c):
            out.append(EnumV('Component', 'CurDir', 2, ()))
        elif E.is_dotdot(it, c):
            out.append(EnumV('Component', 'ParentDir', 3, ()))
        else:
            out.append(EnumV('Component', 'Normal', 4, (StrV(tuple(c)),)))
    if text.split('::<')[0].endswith('iter'):
        out = [_comp_os(c) for c in out]
    return IterV('list', (tuple(out), 0))


def _comp_os(c):
    return {'RootDir': StrV((47,)), 'CurDir': StrV((46,)), 'ParentDir': StrV((46, 46))}.get(c.vname) or c.f[0]


@model('Component::as_os_str')
def m_comp_as_os_str(it, argv, text):
    return _comp_os(it.deref_all(argv[0]))


@model('Path::ancestors')
def m_ancestors(it, argv, text):
    p = it.as_str(argv[0]).b
    out = [StrV(tuple(p))]
    while True:
        q = E.path_parent(it, p)
        if q is None:
            break
        out.append(StrV(q))
        p = q
    return IterV('list', (tuple(out), 0))


@model('current_dir')
def m_current_dir(it, argv, text):
    return S.ok(StrV(tuple(E.env_of(it).cwd)))


@model('absolute')
def m_absolute(it, argv, text):
    """std::path::absolute (POSIX): joins a relative path to the cwd, drops `.` components and repeated separators, but -- unlike
    canonicalize -- KEEPS `..` components and does not touch the file system (no symlink resolution, the path need not exist)"""
    env = E.env_of(it)
    p = E.path_arg(it, argv[0])
    if any(is_sym(b) for b in p):
        raise Unsupported("std::path::absolute of a symbolic path")
    p = bytes(p)
    if not p:
        return S.err(E.io_error('InvalidInput'))
    full = p if p.startswith(b'/') else bytes(env.cwd).rstrip(b'/') + b'/' + p
    comps = [c for c in full.split(b'/') if c not in (b'', b'.')]
    return S.ok(StrV(tuple(b'/' + b'/'.join(comps))))


@model('remove_dir_all', 'remove_dir')
def m_remove_dir_all(it, argv, text):
    env = E.env_of(it)
    comps = env.norm(E.path_arg(it, argv[0]))
    n = env.find(comps)
    if n is None:
        return S.err(E.io_error('NotFound'))
    for m_ in list(env.nodes):
        if len(m_[0]) >= len(comps) and env.find(m_[0][:len(comps)]) is n:
            env.nodes.remove(m_)
            env.log.append(('remove', E.printable(E.comps_to_bytes(m_[0]))))
    return S.ok(UNIT)


@model('File::sync_all', 'File::sync_data')
def m_sync_all(it, argv, text):
    env = E.env_of(it)
    f = it.deref_all(argv[0])
    h = env.handles[f.data]
    if env.maybe_fail('write', E.comps_to_bytes(h['comps'])):
        return S.err(E.io_error('Other'))
    return S.ok(UNIT)


@model('BufWriter::with_capacity')
def m_bw_with_capacity(it, argv, text):
    return OpaqueV('BufWriter', argv[1].data)


@model('BufReader::with_capacity')
def m_br_with_capacity(it, argv, text):
    return OpaqueV('BufReader', argv[1].data)


@model('BufWriter::into_inner')
def m_bw_into_inner(it, argv, text):
    r = E.m_flush(it, [argv[0]], text)
    if r.idx == 1:
        return S.err(OpaqueV('IntoInnerError'))
    return S.ok(OpaqueV('File', argv[0].data))


@model('BufWriter::get_ref', 'BufWriter::get_mut', 'BufReader::get_ref', 'BufReader::get_mut', 'BufReader::into_inner')
def m_buf_get_ref(it, argv, text):
    v = it.deref_all(argv[0])
    return OpaqueV('File', v.data)


# ----------------------------------------------------------------------------- peekable

@model('Iterator::peekable')
def m_peekable(it, argv, text):
    return IterV('list', (tuple(drain(it, argv[0])), 0))


@model('Peekable::peek', 'Peekable::peek_mut')
def m_peek(it, argv, text):
    iv = it.load(argv[0].addr)
    items, pos = iv.data
    if pos >= len(items):
        return NONE
    return some(RefV(it.alloc(items[pos])))


@model('Peekable::next_if')
def m_next_if(it, argv, text):
    iv = it.load(argv[0].addr)
    items, pos = iv.data
    if pos < len(items) and truth(it, it.call_value(argv[1], [RefV(it.alloc(items[pos]))])):
        it.store(argv[0].addr, IterV('list', (items, pos + 1)))
        return some(items[pos])
    return NONE


# ----------------------------------------------------------------------------- atomics / mutex / blocking receive

@model('AtomicUsize::new', 'AtomicU64::new', 'AtomicBool::new', 'Mutex::new', 'RwLock::new', 'RefCell::new', 'Cell::new')
def m_cell_new(it, argv, text):
    return RefV(it.alloc(argv[0]))          # shared interior-mutable cell


@model('AtomicUsize::load', 'AtomicU64::load', 'AtomicBool::load', 'Cell::get')
def m_atomic_load(it, argv, text):
    return it.deref_all(argv[0])


@model('AtomicUsize::store', 'AtomicU64::store', 'AtomicBool::store', 'Cell::set')
def m_atomic_store(it, argv, text):
    r = argv[0]
    while isinstance(it.load(r.addr), RefV):
        r = it.load(r.addr)
    it.store(r.addr, argv[1])
    return UNIT


@model('AtomicUsize::fetch_add', 'AtomicU64::fetch_add')
def m_fetch_add(it, argv, text):
    r = argv[0]
    while isinstance(it.load(r.addr), RefV):
        r = it.load(r.addr)
    old = it.load(r.addr)
    it.store(r.addr, (old + argv[1]) & ((1 << 64) - 1))
    return old


@model('AtomicUsize::fetch_sub', 'AtomicU64::fetch_sub')
def m_fetch_sub(it, argv, text):
    r = argv[0]
    while isinstance(it.load(r.addr), RefV):
        r = it.load(r.addr)
    old = it.load(r.addr)
    it.store(r.addr, (old - argv[1]) & ((1 << 64) - 1))
    return old


@model('Mutex::lock', 'RwLock::write', 'RwLock::read')
def m_mutex_lock(it, argv, text):
    r = argv[0]
    inner = it.load(r.addr)
    return S.ok(inner if isinstance(inner, RefV) else r)


@model('RefCell::borrow', 'RefCell::borrow_mut')
def m_refcell_borrow(it, argv, text):
    r = argv[0]
    inner = it.load(r.addr)
    return inner if isinstance(inner, RefV) else r


@model('<MutexGuard as Deref>::deref', '<MutexGuard as DerefMut>::deref_mut', '<RefMut as DerefMut>::deref_mut', '<Ref as Deref>::deref',
       '<RwLockWriteGuard as DerefMut>::deref_mut', '<RwLockReadGuard as Deref>::deref', '<RefMut as Deref>::deref')
def m_guard_deref(it, argv, text):
    g = argv[0]
    inner = it.load(g.addr)
    return inner if isinstance(inner, RefV) else g


@model('Receiver::recv_timeout')
def m_recv_timeout(it, argv, text):
    r = E.m_try_recv(it, argv[:1], text)
    if r.idx == 1:
        e = r.f[0]
        return S.err(EnumV('RecvTimeoutError', 'Timeout' if e.vname == 'Empty' else 'Disconnected', 0 if e.vname == 'Empty' else 1, ()))
    return r


@model('Receiver::iter', 'Receiver::try_iter', '<Receiver as IntoIterator>::into_iter')
def m_recv_iter(it, argv, text):
    raise Unsupported("channel iterators are not modelled (blocking receive loop)")


@model('ThreadPool::active_count', 'ThreadPool::queued_count')
def m_pool_counts(it, argv, text):
    env = E.env_of(it)
    return len(env.pending)


@model('ThreadPool::new', 'ThreadPool::with_name')
def m_pool_new(it, argv, text):
    n = argv[-1]
    if n == 0:
        raise RustPanic("ThreadPool::new: assertion failed: num_threads >= 1")
    return OpaqueV('ThreadPool', some(n))


@model('available_parallelism')
def m_avail_par(it, argv, text):
    return S.ok(4)


@model('NonZero::get', 'NonZeroUsize::get')
def m_nonzero_get(it, argv, text):
    return it.deref_all(argv[0])


_reg_btree()


@model('RangeInclusive::new')
def m_range_incl_new(it, argv, text):
    return StructV('RangeInclusive', (argv[0], argv[1], False))


@model('RangeInclusive::start', 'RangeInclusive::end')
def m_range_incl_get(it, argv, text):
    r = it.deref_all(argv[0])
    return RefV(it.alloc(r.f[0] if text.split('::<')[0].endswith('start') else r.f[1]))


# ----------------------------------------------------------------------------- round-3 additions

def _int_key(it, k, what):
    k = it.deref_all(k)
    if isinstance(k, TupleV) and all(isinstance(it.deref_all(x), int) for x in k.f):
        return tuple(it.deref_all(x) for x in k.f)
    if not isinstance(k, int):
        raise Unsupported("%s with non-integer key %r" % (what, k))
    return k


@model('Iterator::min_by_key', 'Iterator::max_by_key')
def m_min_by_key(it, argv, text):
    """min_by_key returns the FIRST minimal element, max_by_key the LAST maximal one (documented)"""
    xs = drain(it, argv[0])
    if not xs:
        return NONE
    keys = [_int_key(it, it.call_value(argv[1], [RefV(it.alloc(x))]), 'min_by_key') for x in xs]
    best = 0
    if 'max_by_key' in text:
        for i in range(1, len(xs)):
            if keys[i] >= keys[best]:
                best = i
    else:
        for i in range(1, len(xs)):
            if keys[i] < keys[best]:
                best = i
    return some(xs[best])


@model('Iterator::min_by', 'Iterator::max_by')
def m_min_by(it, argv, text):
    xs = drain(it, argv[0])
    if not xs:
        return NONE
    best = xs[0]
    for x in xs[1:]:
        r = it.call_value(argv[1], [RefV(it.alloc(best)), RefV(it.alloc(x))])
        if 'max_by' in text:
            if r.vname != 'Greater':      # last maximal element wins
                best = x
        else:
            if r.vname == 'Greater':      # first minimal element wins
                best = x
    return some(best)


@model('String::replace_range')
def m_replace_range(it, argv, text):
    r = argv[0]
    s = it.load(r.addr).b
    rg = it.deref_all(argv[1])
    if not isinstance(rg, StructV):
        raise Unsupported("replace_range with %r" % (rg,))
    n = len(s)
    if rg.name == 'Range':
        a, b = rg.f
    elif rg.name == 'RangeInclusive':
        a, b = rg.f[0], rg.f[1] + 1
    elif rg.name == 'RangeFrom':
        a, b = rg.f[0], n
    elif rg.name == 'RangeTo':
        a, b = 0, rg.f[0]
    elif rg.name == 'RangeFull':
        a, b = 0, n
    else:
        raise Unsupported("replace_range with %s" % rg.name)
    if not (isinstance(a, int) and isinstance(b, int)):
        raise Unsupported("replace_range with symbolic bounds")
    if a > b or b > n:
        raise RustPanic("replace_range: range %d..%d out of bounds of a string of length %d" % (a, b, n))
    if not S.is_boundary(s, a) or not S.is_boundary(s, b):
        raise RustPanic("replace_range: not a char boundary")
    it.store(r.addr, StrV(s[:a] + it.as_str(argv[2]).b + s[b:]))
    return UNIT


@model('MAIN_SEPARATOR')
def m_main_separator(it, argv, text):
    return 47


@model('MAIN_SEPARATOR_STR')
def m_main_separator_str(it, argv, text):
    return StrV((47,))


# ----------------------------------------------------------------------------- thread-local storage (round 4)

@model('LocalKey::new')
def m_localkey_new(it, argv, text):
    a = argv[0]
    return OpaqueV('LocalKey', getattr(a, 'name', repr(a)))


@model('LocalKey::with', 'LocalKey::with_borrow', 'LocalKey::with_borrow_mut')
def m_localkey_with(it, argv, text):
    """thread_local!: one value per thread, lazily initialised.  All tasks of a run execute on the interpreter's single
    (modelled) worker thread, so the value persists from one task to the next -- exactly what one worker thread sees."""
    key = ('tls', it.deref_all(argv[0]).data if isinstance(it.deref_all(argv[0]), OpaqueV) else 'tls')
    if key not in it.heap:
        init = it.m.free.get('__rust_std_internal_init_fn')
        if init is None:
            raise Unsupported("thread_local! without a recognisable initialiser")
        it.heap[key] = it.call_mir(init, [])
    ref = RefV(Addr(('H', key)))
    if text.split('::')[-1].startswith('with_borrow'):
        raise Unsupported("LocalKey::with_borrow*")
    return it.call_value(argv[1], [ref])


@model('str::trim_ascii_start', 'str::trim_ascii_end', 'str::trim_ascii')
def m_trim_ascii(it, argv, text):
    """ASCII white space per u8::is_ascii_whitespace: TAB, LF, FF, CR, SPACE (NOT vertical tab, NOT Unicode white space)"""
    bs = it.as_str(argv[0]).b
    WS = frozenset([9, 10, 12, 13, 32])

    def is_ws(b):
        if isinstance(b, int):
            return b in WS
        return it.ctx.branch(t_in(b, WS), 'ascii_ws')
    i, j = 0, len(bs)
    kind = text.rsplit('::', 1)[-1]
    if kind in ('trim_ascii_start', 'trim_ascii'):
        while i < j and is_ws(bs[i]):
            i += 1
    if kind in ('trim_ascii_end', 'trim_ascii'):
        while j > i and is_ws(bs[j - 1]):
            j -= 1
    return StrV(tuple(bs[i:j]))


# ----------------------------------------------------------------------------- std hashers and once-cells (round 6)
# A digest is modelled as the exact sequence of bytes fed to the hasher (an injective "hash"): two digests are equal iff the inputs
# are equal.  Real SipHash-1-3 collides with probability 2^-64 per pair; that is outside the claim (assumption A-hash).

def _hash_feed(it, v):
    v = it.deref_all(v)
    if isinstance(v, EnumV) and v.ename == 'Cow':
        v = it.as_str(v)
    if isinstance(v, StrV):
        return tuple(v.b) + (255,)
    if isinstance(v, bool):
        return (int(v),)
    if isinstance(v, int) or is_sym(v):
        return (v,)
    if isinstance(v, (VecV, SliceV)):
        out = (len(it.as_seq(v)),)
        for x in it.as_seq(v):
            out += _hash_feed(it, x)
        return out
    if isinstance(v, (TupleV, StructV)):
        out = ()
        for x in v.f:
            out += _hash_feed(it, x)
        return out
    if isinstance(v, EnumV):
        out = (v.idx,)
        for x in v.f:
            out += _hash_feed(it, x)
        return out
    raise Unsupported("hashing of %r" % (v,))


@model('DefaultHasher::new', 'DefaultHasher::default', 'SipHasher::new', 'SipHasher13::new')
def m_hasher_new(it, argv, text):
    return StructV('__Hasher', (StrV(()),))


def _hasher_cell(it, r):
    while isinstance(it.load(r.addr), RefV):
        r = it.load(r.addr)
    h = it.load(r.addr)
    if not (isinstance(h, StructV) and h.name == '__Hasher'):
        raise Unsupported("hasher state %r" % (h,))
    return r, h


@model('Hash::hash')
def m_hash_hash(it, argv, text):
    r, h = _hasher_cell(it, argv[1])
    it.store(r.addr, StructV('__Hasher', (StrV(tuple(h.f[0].b) + _hash_feed(it, argv[0])),)))
    return UNIT


@model('Hasher::write', 'Hasher::write_u8', 'Hasher::write_u32', 'Hasher::write_u64', 'Hasher::write_usize', 'Hasher::write_str',
       'DefaultHasher::write', 'DefaultHasher::write_str')
def m_hasher_write(it, argv, text):
    r, h = _hasher_cell(it, argv[0])
    it.store(r.addr, StructV('__Hasher', (StrV(tuple(h.f[0].b) + _hash_feed(it, argv[1])),)))
    return UNIT


@model('Hasher::finish', 'DefaultHasher::finish')
def m_hasher_finish(it, argv, text):
    r, h = _hasher_cell(it, argv[0])
    return StructV('__Digest', (h.f[0],))


@model('OnceLock::new', 'OnceCell::new')
def m_oncelock_new(it, argv, text):
    return RefV(it.alloc(NONE))


def _once_cell(it, r):
    """&OnceLock -> the reference to its Option cell (the OnceLock value itself is a RefV to that cell)"""
    v = it.load(r.addr)
    while isinstance(v, RefV):
        r = v
        v = it.load(r.addr)
    if not (isinstance(v, EnumV) and v.ename == 'Option'):
        raise Unsupported("once cell state %r" % (v,))
    return r, v


@model('OnceLock::get_or_init', 'OnceCell::get_or_init')
def m_oncelock_get_or_init(it, argv, text):
    r, cur = _once_cell(it, argv[0])
    if cur.idx == 1:
        return cur.f[0]
    a = it.alloc(it.call_value(argv[1], []))
    it.store(r.addr, some(RefV(a)))
    return RefV(a)


@model('OnceLock::get', 'OnceCell::get')
def m_oncelock_get(it, argv, text):
    r, cur = _once_cell(it, argv[0])
    return some(cur.f[0]) if cur.idx == 1 else NONE
