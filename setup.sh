#!/bin/bash
# Offline setup: warm the dependency build caches used by the checks (third-party crates only;
# the txtpp crate itself is rebuilt from /repo's working tree by every check).
set -e
cd "$(dirname "$0")"
export CARGO_NET_OFFLINE=true
python3-vt - <<'PY'
import sys
sys.path.insert(0, '.')
from lib import build
repo = build.copy_repo()
build.mir_dump(repo, 'lib')
build.build_native(repo)
import z3, subprocess
print('z3', z3.get_version_string())
print(subprocess.run(['cvc5', '--version'], capture_output=True, text=True).stdout.split('\n')[0])
PY
echo setup ok
