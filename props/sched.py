"""Coordinator harness for C02 / C03 / C05 / C04(a): the real Txtpp::run (Shell::new, Progress, run_internal, resolve_inputs,
execute_file, execute_directory, scan_dir, DepManager::*, Drop) from MIR with the scheduler model of mirsym/models_env.py
(ThreadPool::execute queues the closure, Receiver::try_recv forks over "which in-flight task completes next").

`preprocess` is replaced by an abstract task driven by a lazily chosen dependency digraph (justified by the lemma checked
in fsprops.h_deps: the first pass reports exactly the .txtpp-backed include/after targets, executes nothing after the first
of them, and a final pass never reports dependencies):
    first pass of f:  deps(f) != {}  ->  HasDeps(f, deps(f))      else   Ok(f)   [final]
    final pass of f:                                                        Ok(f)   [final]
    any pass may instead fail when fault injection is on (C04a).
"""
import itertools

from mirsym.core import Violation, PathEnd, BoundExceeded
from mirsym.interp import Interp
from mirsym.models_env import Env
from mirsym.values import *
from .common import *

BASE = b'/w'


def fname(i):
    return ('F%d' % i).encode()


def src_path(i):
    return BASE + b'/' + fname(i) + b'.txtpp'


class World:
    def __init__(self, m, ctx, n, inputs, acyclic_only=False, allow_self=True, fail_budget=0, recursive=False, mode='Build',
                 subdir=False, max_deps=None, threads=4, dup_deps=False, verbosity='Quiet', stderr_faults=0):
        self.m = m
        self.verbosity = verbosity
        self.stderr_faults = stderr_faults
        self.threads = threads
        self.dup_deps = dup_deps
        self.reported = {}        # i -> dependency list as reported (may name a dependency twice: `include x` twice, `after x` + `include x`)
        self.ctx = ctx
        self.n = n
        self.inputs = inputs
        self.acyclic_only = acyclic_only
        self.allow_self = allow_self
        self.fail_budget = fail_budget
        self.failed = []
        self.deps = {}            # i -> list of j (chosen lazily at i's first pass)
        self.events = []          # (kind, file, pass)
        self.final = {}           # i -> number of final passes completed
        self.first_passes = {}
        self.mode = mode
        self.subdir = subdir
        self.max_deps = max_deps

    def index_of(self, abspath):
        p = bytes(abspath.f[1].b)
        # aliases: a spelling with ./ or dir/.. names the same file (the real code must have canonicalised it; if it
        # did not, AbsPath equality treats it as another vertex and the exactly-once oracle reports it)
        parts = []
        for c in p.split(b'/'):
            if c in (b'', b'.'):
                continue
            if c == b'..':
                if parts:
                    parts.pop()
                continue
            parts.append(c)
        p = b'/' + b'/'.join(parts)
        for i in range(self.n):
            if p == src_path(i):
                return i
        if p == BASE + b'/sub/G0.txtpp':
            return 100
        raise Violation('coordinator scheduled an unknown file %r' % p, self.data())

    def choose_deps(self, i):
        if i in self.deps:
            return self.deps[i]
        ctx = self.ctx
        ds = []
        if i >= 100:
            self.deps[i] = ds
            return ds
        for j in range(self.n):
            if j == i and not self.allow_self:
                continue
            if self.acyclic_only and j <= i:
                continue             # edges only to higher indices: every DAG up to relabelling
            if self.max_deps is not None and len(ds) >= self.max_deps:
                break
            if ctx.choose(2, 'edge%d_%d' % (i, j)) == 1:
                ds.append(j)
        self.deps[i] = ds
        return ds

    def reach(self, roots):
        seen = set()
        stack = list(roots)
        while stack:
            x = stack.pop()
            if x in seen:
                continue
            seen.add(x)
            stack.extend(self.deps.get(x, []))
        return seen

    def on_cycle_or_reaches(self, i):
        """does i reach a cycle (incl. self loop)? (over chosen deps)"""
        # node on a cycle: reachable from one of its own successors
        cyc = set()
        for x in list(self.deps):
            for y in self.deps.get(x, []):
                if x in self.reach([y]):
                    cyc.add(x)
        return bool(self.reach([i]) & cyc)

    # ---- the abstract task
    def preprocess(self, it, argv, text):
        shell, file_ref, mode, first, trailing = argv
        f = it.deref_all(file_ref)
        i = self.index_of(f)
        ctx = self.ctx
        self.events.append(('begin', i, 1 if first else 2))
        if self.fail_budget > 0 and ctx.choose(2, 'fail%d' % i) == 1:
            self.fail_budget -= 1
            self.failed.append((i, 1 if first else 2))
            return err(OpaqueV('Report', (StructV('PpError', (EnumV('PpErrorKind', 'Directive', 5, ()), str_of('x'), 0)),)))
        PpResult = self.m.src.enums['PpResult']
        if first:
            self.first_passes[i] = self.first_passes.get(i, 0) + 1
            ds = self.choose_deps(i)
            if ds and self.mode != 'Clean':
                rep = self.reported.get(i)
                if rep is None:
                    rep = list(ds)
                    if self.dup_deps:
                        k = ctx.choose(len(ds) + 1, 'dup%d' % i)
                        if k > 0:
                            rep = rep + [ds[k - 1]]          # the last entry repeats an earlier one
                    self.reported[i] = rep
                deps = VecV(tuple(StructV('AbsPath', (StrV(tuple(BASE)), StrV(tuple(src_path(j))))) for j in rep))
                self.events.append(('hasdeps', i, tuple(ds)))
                return ok(EnumV('PpResult', 'HasDeps', PpResult.index('HasDeps'), (f, deps)))
        # final pass: every dependency must be final already (C02)
        if self.mode != 'Clean':
            for j in self.deps.get(i, []):
                if self.final.get(j, 0) == 0:
                    raise Violation('file F%d is processed to completion before its dependency F%d is complete' % (i, j), self.data())
        self.final[i] = self.final.get(i, 0) + 1
        self.events.append(('final', i))
        if self.final[i] > 1:
            raise Violation('file F%d is completed twice in one run' % i, self.data())
        return ok(EnumV('PpResult', 'Ok', PpResult.index('Ok'), (f,)))

    def data(self):
        return {'op': 'sched', 'n': self.n, 'inputs': list(self.inputs), 'deps': {str(k): v for k, v in self.deps.items()},
                'events': list(self.events), 'failed': list(self.failed), 'mode': self.mode, 'recursive': getattr(self, 'recursive', False),
                'subdir': self.subdir, 'threads': self.threads, 'reported': {str(k): v for k, v in self.reported.items()},
                'verbosity': self.verbosity, 'stderr_faults': self.stderr_faults}


def mk_config(m, inputs, mode, recursive=False, threads=4, verbosity='Quiet'):
    modes = m.src.enums['Mode']
    verb = m.src.enums['Verbosity']
    return StructV('Config', (StrV(tuple(BASE)), StrV(()), VecV(tuple(StrV(tuple(i.encode() if isinstance(i, str) else i)) for i in inputs)),
                              recursive, threads, EnumV('Mode', mode, modes.index(mode), ()), EnumV('Verbosity', verbosity, verb.index(verbosity), ()), True))


def run_coordinator(m, ctx, w, recursive=False):
    it = Interp(m, ctx)
    env = Env(it, cwd=b'/w')
    it.env = env
    env.add_dir(BASE)
    env.add_dir(BASE + b'/sub')
    for i in range(w.n):
        env.add_file(src_path(i), b'x')
        env.add_file(BASE + b'/' + fname(i), b'old')
    if w.subdir:
        env.add_file(BASE + b'/sub/G0.txtpp', b'x')
    env.add_file(b'/bin/sh', b'')
    it.overrides[(None, 'preprocess')] = w.preprocess
    run = m.find_method('Txtpp', 'run')
    cfg = mk_config(m, w.inputs, w.mode, recursive, w.threads, w.verbosity)
    if w.stderr_faults:
        env.clock_fork = True            # the throttled progress line is due at every update, or never
        env.fault_budget = w.stderr_faults
        env.fault_filter = lambda op, path: op == 'stderr'
    try:
        r = it.call_mir(run, [cfg])
    except BoundExceeded as b:
        # a loop inside run() that does not end within the interpreter's loop bound: reported as a hang, to be confirmed
        # (or refuted: then the result is inconclusive, never a pass) by the native replay under a timeout
        d = w.data()
        d['sched_trace'] = list(env.sched_trace)
        d['model'] = {}
        raise Violation('hang: %s' % b, d)
    except Violation as v:
        if v.msg.startswith('hang'):
            d = w.data()
            d['sched_trace'] = list(env.sched_trace)
            d['model'] = {}
            raise Violation(v.msg, d)
        raise
    # the Txtpp value is dropped inside run(); pending tasks were joined there
    return it, env, r


def requested_files(w):
    """indices named by the inputs (by source name, output name, ./ spelling or directory)"""
    out = set()
    for inp in w.inputs:
        s = inp if isinstance(inp, str) else inp.decode()
        s2 = s
        while s2.startswith('./'):
            s2 = s2[2:]
        if s2 in ('.', ''):
            out |= set(range(w.n))
            continue
        if s2 == 'sub':
            out.add(100)
            continue
        nm = s2.split('/')[-1]
        if nm.startswith('F'):
            out.add(int(nm[1:].split('.')[0]))
    return out


def h_sched(m, ctx, n, inputs, acyclic_only=False, allow_self=True, fail_budget=0, mode='Build', recursive=False, subdir=False,
            max_deps=None, check_panics=False, threads=4, dup_deps=False, verbosity='Quiet', stderr_faults=0):
    w = World(m, ctx, n, inputs, acyclic_only, allow_self, fail_budget, mode=mode, subdir=subdir, max_deps=max_deps, threads=threads,
              dup_deps=dup_deps, verbosity=verbosity, stderr_faults=stderr_faults)
    w.recursive = recursive
    it, env, r = run_coordinator(m, ctx, w, recursive)
    ok_ = (r.idx == 0)
    data = w.data()
    data['result'] = 'Ok' if ok_ else 'Err'
    data['sched_trace'] = list(env.sched_trace)
    ctx.notes['deps'] = {str(k): v for k, v in w.deps.items()}
    ctx.notes['events'] = len(w.events)
    req = requested_files(w)
    if recursive and subdir and any((i if isinstance(i, str) else i.decode()) in ('.', './') for i in inputs):
        req.add(100)
    if mode == 'Clean':
        required = set(req)
    else:
        required = w.reach(req)
    if env.pending:
        # tasks still queued on the pool when run() returns keep running afterwards; their channel is gone
        ctx.cover('tasks_outlive_run')
        from mirsym.core import RustPanic
        from mirsym.models_env import _run_task
        try:
            while env.pending:
                _run_task(it, env, 0)
        except RustPanic as e:
            if check_panics:
                raise Violation('a worker thread panics after run() returned: %s' % e.msg, dict(data, panic=e.msg))
    if w.failed:
        ctx.cover('task_failed')
        if ok_:
            raise Violation('false success: a task failed (%s) but the run reports Ok' % (w.failed,), data)
        return
    cyclic = any(w.on_cycle_or_reaches(i) for i in req) if mode != 'Clean' else False
    if cyclic:
        ctx.cover('cyclic')
        if ok_:
            raise Violation('a required file reaches a dependency cycle but the run reports success', data)
        # files that cannot reach a cycle are still built
        for i in required:
            if not w.on_cycle_or_reaches(i) and w.final.get(i, 0) != 1:
                raise Violation('F%d cannot reach a cycle but was not built in the failing run' % i, data)
        return
    ctx.cover('acyclic')
    if not ok_:
        raise Violation('an acyclic project without failing task ended with an error (spurious circular-dependency / failure)', data)
    for i in required:
        if w.final.get(i, 0) != 1:
            raise Violation('required file F%d was completed %d times' % (i, w.final.get(i, 0)), data)
    for i in w.final:
        if i not in required:
            raise Violation('file F%d was processed although it is neither requested nor a dependency' % i, data)
    # first passes: exactly one per discovered file
    for i, c in w.first_passes.items():
        if c != 1:
            raise Violation('file F%d had %d first passes' % (i, c), data)


H = 'props.sched'


def input_sets(n, quick):
    names = ['F%d.txtpp' % i for i in range(n)]
    sets = []
    for k in range(1, n + 1):
        for c in itertools.combinations(range(n), k):
            sets.append([names[i] for i in c])
    extra = [['F0.txtpp', 'F0.txtpp'], ['F0', './F0.txtpp'], ['.'], ['.', 'F0.txtpp'], ['F0.txtpp', 'sub/../F0.txtpp'], ['.', '.']]
    if n >= 2:
        extra += [['F1.txtpp', 'F0.txtpp'], ['F1', 'F0', 'F1.txtpp'], ['.', 'F1.txtpp']]
    return sets + extra


def jobs_graph(tier, cyclic, prefix):
    js = []
    quick = tier == 'quick'
    for n in ((1, 2, 3) if quick else (1, 2, 3, 4)):
        ins = input_sets(n, quick)
        if n == 3 and quick:
            ins = [['F0.txtpp'], ['F2.txtpp', 'F0.txtpp'], ['.']] if cyclic else \
                  [['F0.txtpp'], ['F0.txtpp', 'F1.txtpp'], ['F2.txtpp', 'F0.txtpp'], ['.'], ['F1', 'F1.txtpp', 'F0.txtpp']]
        if n == 3 and not quick and cyclic:
            # all digraphs on 3 files (no out-degree bound) for selections of one or two files and alias spellings; selecting all three
            # files at once multiplies this by the interleavings of three independent first passes (hours) and stays at out-degree <= 2
            ins = [['F0.txtpp'], ['F1.txtpp'], ['F0.txtpp', 'F1.txtpp'], ['F1.txtpp', 'F2.txtpp'], ['F2.txtpp', 'F0.txtpp'], ['F0', './F0.txtpp'],
                   ['F0.txtpp', 'sub/../F0.txtpp'], ['F1', 'F0', 'F1.txtpp']]
        if n == 4:
            ins = [['F0.txtpp'], ['F0.txtpp', 'F2.txtpp'], ['.'], ['F3.txtpp', 'F0.txtpp']]
            if cyclic:
                ins = [['F0.txtpp'], ['F0.txtpp', 'F2.txtpp']]          # with cycles allowed the 4-file space is much larger: out-degree <= 1, two selections
        for inp in ins:
            p = {'n': n, 'inputs': inp, 'acyclic_only': not cyclic, 'allow_self': cyclic}
            if n == 4 or (n == 3 and quick and cyclic):
                p['max_deps'] = 2 if not (n == 4 and cyclic) else 1
            js.append({'name': '%s n=%d inputs=%s' % (prefix, n, ','.join(inp)), 'harness': (H, 'h_sched'), 'params': p,
                       'split': 16 if n >= 3 else 1, 'max_steps': 4_000_000})
        if n == 3 and not quick and cyclic:
            for inp in (['.'], ['F2.txtpp', 'F0.txtpp', 'F1.txtpp']):
                js.append({'name': '%s n=3 inputs=%s out-degree<=2' % (prefix, ','.join(inp)), 'harness': (H, 'h_sched'),
                           'params': {'n': 3, 'inputs': inp, 'acyclic_only': False, 'allow_self': True, 'max_deps': 2}, 'split': 16, 'max_steps': 4_000_000})
    return js


def jobs_c02(tier):
    js = jobs_graph(tier, False, 'dag')
    js.append({'name': 'dag n=2 recursive dir scan with subdir', 'harness': (H, 'h_sched'),
               'params': {'n': 2, 'inputs': ['.'], 'acyclic_only': True, 'recursive': True, 'subdir': True}})
    js.append({'name': 'dag n=3 dependency named twice', 'harness': (H, 'h_sched'),
               'params': {'n': 3, 'inputs': ['F0.txtpp'], 'acyclic_only': True, 'dup_deps': True}, 'split': 8})
    js.append({'name': 'dag n=3 dependency named twice, all requested', 'harness': (H, 'h_sched'),
               'params': {'n': 3, 'inputs': ['.'], 'acyclic_only': True, 'dup_deps': True, 'max_deps': 1}, 'split': 8})
    for mode in ('InMemoryBuild', 'Verify'):
        js.append({'name': 'dag n=3 mode=%s' % mode, 'harness': (H, 'h_sched'),
                   'params': {'n': 3, 'inputs': ['F0.txtpp', 'F1.txtpp'], 'acyclic_only': True, 'mode': mode}, 'split': 8})
    return js


def jobs_c03(tier):
    js = jobs_graph(tier, True, 'digraph')
    js.append({'name': 'clean mode n=2 (no dependency processing)', 'harness': (H, 'h_sched'),
               'params': {'n': 2, 'inputs': ['F0.txtpp', 'F1', '.'], 'mode': 'Clean'}})
    js.append({'name': 'dir scan non-recursive with subdir', 'harness': (H, 'h_sched'),
               'params': {'n': 2, 'inputs': ['.', '.'], 'acyclic_only': True, 'recursive': False, 'subdir': True}})
    js.append({'name': 'dir scan recursive with subdir, sub-directory also named', 'harness': (H, 'h_sched'),
               'params': {'n': 1, 'inputs': ['.', 'sub'], 'acyclic_only': True, 'recursive': True, 'subdir': True}, 'split': 16})
    # termination when a task fails while others are still queued / in flight (few threads: back-pressure matters)
    for n, th in ((3, 1), (4, 1), (4, 2)) if tier == 'quick' else ((3, 1), (4, 1), (4, 2), (5, 1), (5, 2)):
        js.append({'name': 'termination with a failing task n=%d threads=%d' % (n, th), 'harness': (H, 'h_sched'),
                   'params': {'n': n, 'inputs': ['.'], 'acyclic_only': True, 'allow_self': False, 'fail_budget': 1, 'max_deps': 0, 'threads': th},
                   'split': 16})
    # the progress display cannot be written (stderr on a full disk / closed pipe): the run must still end, with the right verdict
    for verb in ('Normal', 'Verbose'):
        for n, inp, kw in ((2, ['.'], {'max_deps': 1}), (2, ['F0.txtpp'], {}), (3, ['.'], {'max_deps': 0})):
            p = dict({'n': n, 'inputs': inp, 'acyclic_only': True, 'allow_self': False, 'verbosity': verb, 'stderr_faults': 1, 'threads': 2}, **kw)
            js.append({'name': 'terminal writes fail (%s) n=%d inputs=%s' % (verb, n, ','.join(inp)), 'harness': (H, 'h_sched'), 'params': p, 'split': 16})
    js.append({'name': 'digraph n=2 dependency named twice', 'harness': (H, 'h_sched'),
               'params': {'n': 2, 'inputs': ['F0.txtpp', 'F1.txtpp'], 'allow_self': True, 'dup_deps': True}})
    js.append({'name': 'dag n=3 dependency named twice', 'harness': (H, 'h_sched'),
               'params': {'n': 3, 'inputs': ['F0.txtpp'], 'acyclic_only': True, 'dup_deps': True}, 'split': 8})
    if tier != 'quick':
        js.append({'name': 'dir scan recursive with subdir, dir named twice', 'harness': (H, 'h_sched'),
                   'params': {'n': 1, 'inputs': ['.', 'sub', '.'], 'acyclic_only': True, 'recursive': True, 'subdir': True}, 'split': 16})
    return js


def jobs_c05(tier):
    js = jobs_graph(tier, True, 'cyclic')
    # a dependency list that names the same file twice (two includes of x, `after x` + `include x`)
    sel = [(2, ['F0.txtpp', 'F1.txtpp']), (2, ['F0.txtpp']), (2, ['.']), (3, ['F0.txtpp'])]
    if tier != 'quick':
        sel.append((3, ['.']))          # 447 456 paths, 17 min on 16 cores
    for n, inp in sel:
        p = {'n': n, 'inputs': inp, 'allow_self': True, 'dup_deps': True}
        if n == 3:
            p['max_deps'] = 2
        js.append({'name': 'cyclic n=%d inputs=%s dependency named twice' % (n, ','.join(inp)), 'harness': (H, 'h_sched'), 'params': p,
                   'split': 16 if n >= 3 else 1, 'max_steps': 4_000_000})
    return js


def jobs_c04(tier):
    js = []
    quick = tier == 'quick'
    for n in ((2, 3) if quick else (2, 3, 4)):
        for inp in ([['F0.txtpp'], ['F0.txtpp', 'F1.txtpp'], ['.']] if n < 4 else [['F0.txtpp']]):
            p = {'n': n, 'inputs': inp, 'acyclic_only': True, 'allow_self': False, 'fail_budget': 1}
            if n == 4:
                p['max_deps'] = 2
            js.append({'name': 'task failure n=%d inputs=%s' % (n, ','.join(inp)), 'harness': (H, 'h_sched'), 'params': p,
                       'split': 16 if n >= 3 else 1, 'max_steps': 4_000_000})
    for verb in ('Normal', 'Verbose'):
        js.append({'name': 'task failure while terminal writes fail (%s) n=2' % verb, 'harness': (H, 'h_sched'),
                   'params': {'n': 2, 'inputs': ['.'], 'acyclic_only': True, 'allow_self': False, 'fail_budget': 1, 'max_deps': 1, 'verbosity': verb,
                              'stderr_faults': 1, 'threads': 2}, 'split': 16})
        js.append({'name': 'task failure while terminal writes fail (%s) n=1' % verb, 'harness': (H, 'h_sched'),
                   'params': {'n': 1, 'inputs': ['F0.txtpp'], 'acyclic_only': True, 'allow_self': False, 'fail_budget': 1, 'verbosity': verb,
                              'stderr_faults': 1, 'threads': 1}})
    js.append({'name': 'two task failures n=3', 'harness': (H, 'h_sched'),
               'params': {'n': 3, 'inputs': ['.'], 'acyclic_only': True, 'allow_self': False, 'fail_budget': 2}, 'split': 16})
    return js


# ----------------------------------------------------------------------------- native replay

def replay(native, v):
    """build the concrete project of the counterexample, force the completion order of the trace with sleeps, run the real
    binary (several thread counts / repetitions) and judge the property natively"""
    import os, shutil, subprocess, tempfile, time
    from lib import build
    from . import ppreplay
    d = v['data']
    n = d['n']
    deps = {int(k): val for k, val in d.get('deps', {}).items()}
    reported = {int(k): val for k, val in d.get('reported', {}).items()}
    inputs = d['inputs']
    cli = ppreplay.cli_path()
    # order in which first passes complete in the trace
    order = []
    for e in d.get('events', []):
        if e[0] == 'begin' and e[2] == 1 and e[1] not in order:
            order.append(e[1])
    finals = [e[1] for e in d.get('events', []) if e[0] == 'final']
    failed = [f for f, _ in d.get('failed', [])]
    detail = {'graph': deps, 'inputs': inputs, 'first_pass_order': order, 'attempts': []}

    from spec import pp as specpp

    def content(i, plan):
        lines = ['-TXTPP#run sleep %.1f' % plan[i]] if plan.get(i) else []
        lines.append('new F%d' % i)
        if i in failed:
            lines.append('-TXTPP#run exit 1')
        for j in reported.get(i, deps.get(i, [])):
            lines.append('-TXTPP#include F%d' % j)
        if plan.get(('late', i)):
            lines.append('#TXTPP#run sleep %.1f' % plan[('late', i)])   # after the dependencies: delays the final pass only
        lines.append('#TXTPP#run echo r >> count_F%d' % i)       # runs in the final pass only: exactly once per build
        return '\n'.join(lines) + '\n'

    def plan_from_trace(step=0.5):
        """sleeps that make first-pass results and final results arrive in the order of the model trace:
        s1 (top of file) delays both passes, s2 (after the dependency lines) delays the final pass only"""
        t = 0.0
        spawn1, spawn2, s1, s2 = {}, {}, {}, {}
        req = set()
        for inp in inputs:
            nm = inp.split('/')[-1]
            if nm in ('.', ''):
                req |= set(range(n))
            elif nm.startswith('F'):
                req.add(int(nm[1:].split('.')[0]))
        for i in req:
            spawn1[i] = 0.0
        had_deps = set()
        for e in d.get('events', []):
            if e[0] == 'hasdeps':
                i = e[1]
                t += step
                s1[i] = max(0.0, t - spawn1.get(i, 0.0))
                had_deps.add(i)
                for j in e[2]:
                    spawn1.setdefault(j, t)
                spawn2[i] = t               # released at the earliest now; refined when its last dependency completes
            elif e[0] == 'final':
                i = e[1]
                t += step
                if i in had_deps:
                    s2[i] = max(0.0, t - spawn2.get(i, t) - s1.get(i, 0.0))
                else:
                    s1[i] = max(0.0, t - spawn1.get(i, 0.0))
                for k in list(spawn2):
                    if i in deps.get(k, []):
                        spawn2[k] = max(spawn2[k], t)
        plan = {i: round(v, 1) for i, v in s1.items() if v > 0}
        plan.update({('late', i): round(v, 1) for i, v in s2.items() if v > 0})
        return plan

    class _E:
        def __init__(self, seen):
            self.seen = seen

        def include(self, ctx, arg):
            j = int(bytes(arg).decode()[1:])
            e = expected(j, self.seen)
            return None if e is None else tuple(e.encode())

        def run(self, ctx, cmd):
            return () if bytes(cmd).startswith((b'sleep', b'echo')) else None

        def is_txtpp_name(self, ctx, arg):
            return False

        def write_temp(self, ctx, arg, c):
            pass

    def expected(i, seen=()):
        """reference output of Fi (None if it reaches a cycle): the documented semantics applied in dependency order"""
        if i in seen:
            return None
        for j in deps.get(i, []):
            if expected(j, seen + (i,)) is None:
                return None
        r = specpp.process(ConcreteCtx(), tuple(content(i, {}).encode()), _E(seen + (i,)), True)
        return bytes(r.output).decode() if r.ok else None
    bad = False
    plans = [plan_from_trace(), {}, {i: 0.4 * k for k, i in enumerate(order)}, {i: 0.4 * (len(order) - k) for k, i in enumerate(order)},
             {i: (0.0 if i in finals[:1] else 0.6) for i in range(n)}]
    variants = [(plan, list(inputs)) for plan in plans]
    if v['msg'].startswith('hang') and failed and all(i in ('.', './') for i in inputs):
        # the model's schedule completes the failing task first; with few threads the native order is the (unspecified)
        # directory order, so the same selection is also tried with the files named explicitly, failing one first
        first = ['F%d.txtpp' % f for f in failed] + ['F%d.txtpp' % i for i in range(n) if i not in failed]
        variants = [({}, first)] + variants
    for plan, inputs in variants:
        for threads in ([d['threads']] if d.get('threads') in (1, 2) else []) + [4, 1]:
            root = tempfile.mkdtemp(prefix='replay-sched-', dir=build.scratch_dir())
            os.makedirs(os.path.join(root, 'sub'))
            if d.get('subdir'):
                open(os.path.join(root, 'sub', 'G0.txtpp'), 'w').write('g\n')
            for i in range(n):
                open(os.path.join(root, 'F%d.txtpp' % i), 'w').write(content(i, plan))
                open(os.path.join(root, 'F%d' % i), 'w').write('old F%d\n' % i)
            t0 = time.time()
            try:
                rflag = ['-r'] if d.get('recursive') else []
                vflag = {'Quiet': ['-q'], 'Normal': [], 'Verbose': ['-v']}[d.get('verbosity', 'Quiet')]
                if d.get('stderr_faults'):
                    # every write to the terminal fails (ENOSPC): stderr on /dev/full
                    with open('/dev/full', 'w') as full:
                        r = subprocess.run([cli] + vflag + ['-j', str(threads)] + rflag + list(inputs), cwd=root, stdout=subprocess.DEVNULL,
                                           stderr=full, timeout=30)
                else:
                    r = subprocess.run([cli] + vflag + ['-j', str(threads)] + rflag + list(inputs), cwd=root, capture_output=True, timeout=30)
                rc = r.returncode
            except subprocess.TimeoutExpired:
                rc = 'HANG'
            att = {'threads': threads, 'inputs': list(inputs), 'sleeps': plan, 'rc': rc, 'secs': round(time.time() - t0, 1)}
            req = set()
            for inp in inputs:
                s = inp
                while s.startswith('./'):
                    s = s[2:]
                if s in ('.', ''):
                    req |= set(range(n))
                else:
                    nm = s.split('/')[-1]
                    if nm.startswith('F'):
                        req.add(int(nm[1:].split('.')[0]))
            # judge
            seen = set()
            stack = list(req)
            while stack:
                x = stack.pop()
                if x not in seen:
                    seen.add(x)
                    stack.extend(deps.get(x, []))
            cyclic = any(expected(i) is None for i in req)
            if rc == 'HANG':
                bad = True
            elif failed:
                if rc == 0:
                    bad = True
            elif cyclic:
                if rc == 0:
                    bad = True
                for i in seen:
                    if expected(i) is not None and open(os.path.join(root, 'F%d' % i)).read() != expected(i):
                        bad = True
                        att['wrong'] = 'F%d' % i
            else:
                if rc != 0:
                    bad = True
                for i in seen:
                    got = open(os.path.join(root, 'F%d' % i)).read()
                    if got != expected(i):
                        bad = True
                        att['wrong'] = 'F%d: %r' % (i, got)
                    cp = os.path.join(root, 'count_F%d' % i)
                    cnt = open(cp).read().count('r') if os.path.exists(cp) else 0
                    if cnt != 1:
                        bad = True
                        att['executions'] = 'F%d completed %d times' % (i, cnt)
            detail['attempts'].append(att)
            shutil.rmtree(root, ignore_errors=True)
            if bad:
                return True, detail
    return False, detail
