"""Harnesses for the file-system properties C04(b), C06-C10: real `preprocess` in all four modes over symbolic
pre-states of the generated paths, with the FS model's mutation log as monitor and optional fault injection."""
from mirsym.core import Violation, t_bytes_eq, t_not, t_eq
from mirsym.interp import Interp
from mirsym.models_env import Env, printable
from mirsym.values import *
from spec import pp as specpp
from .common import *
from .ppgen import *
from . import ppreplay

TMP = WORK + b'/t.tmp'
DECOYS = [(WORK + b'/a.tmp', b'decoy1'), (WORK + b'/a.txt.bak', b'decoy2'), (WORK + b'/a', b'decoy3'), (b'/w/a.txt', b'decoy4'),
          (WORK + b'/t.tmp.txtpp', b'decoy5\n'), (WORK + b'/t.txtpp.md', b'decoy6\n'), (WORK + b'/t.txtpp', b'decoy7\n')]
ANYBYTE = list(range(256))


def pre_state(ctx, name, length, domain=ASCII_ALL):
    """length None => the path does not exist"""
    if length is None:
        return None
    return ctx.fresh_bytes(name, length, domain)


def world(m, ctx, nlines, menu_name, fixed, pre_out_len, pre_temp_len, pre_domain=ASCII_ALL, inc_len=2, out_len=1,
          le_choices=(b'\n',), final_newline=None, decoys=False):
    source, desc = build_source(ctx, nlines, menu_name, fixed=fixed, le_choices=le_choices, final_newline=final_newline)
    se = SymEnv(ctx, inc_len=inc_len, out_len=out_len)
    se.lenient = True
    pre_out = pre_state(ctx, 'po', pre_out_len, pre_domain)
    pre_temp = pre_state(ctx, 'pt', pre_temp_len, pre_domain)
    data = {'op': 'fs', 'lines': desc, 'source': syms_of(source), 'inc': syms_of(se.inc_content),
            'pre_out': syms_of(pre_out) if pre_out is not None else None,
            'pre_temp': syms_of(pre_temp) if pre_temp is not None else None, 'source_shown': show_bytes(source)}
    ctx.notes['lines'] = desc
    return source, desc, se, pre_out, pre_temp, data


def run_mode(m, ctx, se, source, mode, pre_out, pre_temp, trailing=True, decoys=False, faults=0, fault_filter=None,
             first_pass=False):
    it = Interp(m, ctx)
    env = se.install(it, source, pre_out=pre_out, pre_temp=pre_temp, extra_files=DECOYS if decoys else ())
    env.fault_budget = faults
    env.fault_filter = fault_filter
    r = run_preprocess(m, it, mode, first_pass, trailing)
    return it, env, r


def finish_data(data, se):
    data['cmd_results'] = [(code, syms_of(o)) for _, code, o in se.cmd_results]
    return data


def allowed_paths(ctx, mode, source, se):
    """the output path plus the targets of the temp directives the run may act on: in clean mode every temp directive of the
    source, otherwise those the reference semantics executes before it stops"""
    allowed = {printable(OUT)}
    if mode == 'Clean':
        args = specpp.temp_targets_all(ctx, source)
    else:
        res = specpp.process(ctx, source, _ReplaySpecEnv(se), True)
        args = [a for a, _ in res.temps]
    for a in args:
        if all(isinstance(b, int) for b in a):
            if specnames.is_txtpp_name(ctx, tuple(a)):
                continue                      # a txtpp source name is never a temp target (refused by build, never deleted by clean)
            allowed.add(printable(WORK + b'/' + bytes(a)))
    return allowed


def check_log(ctx, env, mode, data, source=None, se=None, what_prefix=''):
    """C10 monitor: every mutating FS call targets the output path or a temp target"""
    allowed = allowed_paths(ctx, mode, source, se) if source is not None else {printable(OUT), printable(TMP)}
    for op, path in env.log:
        if path not in allowed:
            violation(ctx, what_prefix + 'txtpp %s a path that is neither its output nor a temp target: %s' % (op, path), dict(data, mode=mode, log=list(env.log)))
        if mode == 'Verify' and path == printable(OUT):
            violation(ctx, what_prefix + 'verify %s the output file' % op, dict(data, mode=mode, log=list(env.log)))
        if mode == 'Clean' and op in ('create', 'write', 'truncate', 'mkdir'):
            violation(ctx, what_prefix + 'clean %s %s' % (op, path), dict(data, mode=mode, log=list(env.log)))


# ----------------------------------------------------------------------------- C06 verify

def h_verify(m, ctx, nlines, menu_name, fixed=None, pre_out_len=None, trailing=True, le_choices=(b'\n',)):
    source, desc, se, pre_out, pre_temp, data = world(m, ctx, nlines, menu_name, fixed, pre_out_len, None, le_choices=le_choices)
    it, env, r = run_mode(m, ctx, se, source, 'Verify', pre_out, None, trailing)
    data = finish_data(dict(data, mode='Verify', trailing=trailing), se)
    spec = specpp.process(ctx, source, se, trailing)
    ok_ = (r.idx == 0)
    check_log(ctx, env, 'Verify', data, source, se)
    after = env.read_file(OUT)
    if (after is None) != (pre_out is None):
        violation(ctx, 'verify created or deleted the output file', data)
    if after is not None:
        check_bytes_equal(ctx, after, pre_out, 'verify modified the output file', data)
    if not spec.ok:
        if ok_:
            violation(ctx, 'verify succeeded although a build of this source fails (%s)' % spec.error, data)
        ctx.cover('verify_source_error')
        return
    fresh = spec.output
    if pre_out is None:
        ctx.cover('verify_missing')
        if ok_:
            violation(ctx, 'verify succeeded although the output file does not exist', data)
        return
    if len(pre_out) != len(fresh):
        ctx.cover('verify_length_differs')
        if ok_:
            violation(ctx, 'verify succeeded although the existing output has %d bytes and a build would write %d' % (len(pre_out), len(fresh)),
                      dict(data, fresh=show_bytes(fresh)))
        return
    eq = t_bytes_eq(tuple(pre_out), tuple(fresh))
    if ok_:
        ctx.cover('verify_ok')
        ctx.check_holds(eq, 'verify succeeded although the existing output differs from the fresh one', dict(data, fresh=show_bytes(fresh)))
    else:
        ctx.cover('verify_mismatch')
        ctx.check_holds(t_not(eq), 'verify failed although the existing output is byte-identical to the fresh one', dict(data, fresh=show_bytes(fresh)))


# ----------------------------------------------------------------------------- C07 clean

def h_clean(m, ctx, nlines, menu_name, fixed=None, history='build-clean', le_choices=(b'\n',), pre_temp_len=None, dir_at_temp=False):
    source, desc, se, _, hand_written, data = world(m, ctx, nlines, menu_name, fixed, None, pre_temp_len, le_choices=le_choices)
    if dir_at_temp:
        hand_written = 'DIR'
        data['pre_temp'] = 'DIR'
    data = dict(data, history=history, extra_files=[(p.decode(), list(c)) for p, c in DECOYS])
    # 'build-rmout-clean': the output is removed by hand between the build and the clean (the temp files build created must still go)
    steps = {'build-clean': ['Build', 'Clean'], 'clean': ['Clean'], 'build-clean-clean': ['Build', 'Clean', 'Clean'],
             'build-rmout-clean': ['Build', 'Clean']}[history]
    pre_out = None
    pre_temp = hand_written          # a file the user wrote at t.tmp (matters when no valid temp directive names it)
    build_ok = None
    ncmds_after_build = 0
    for si, mode in enumerate(steps):
        if si > 0:
            se.replaying = 0
        it, env, r = run_mode(m, ctx, se, source, mode, pre_out, pre_temp, decoys=True)
        if mode == 'Build':
            build_ok = (r.idx == 0)
            ncmds_after_build = len(se.cmd_results)
            se.second_cmds = []
        else:
            d = finish_data(dict(data, step=si), se)
            if r.idx != 0:
                violation(ctx, 'clean failed (it must succeed even when the source has directive errors)', d)
            if se.second_cmds or (history == 'clean' and se.cmd_results):
                violation(ctx, 'clean executed a run command', d)
            check_log(ctx, env, 'Clean', d, source, se)
            if build_ok is not False:
                # after a successful build (or no build): every generated file is gone
                if env.read_file(OUT) is not None:
                    violation(ctx, 'clean left the output file behind', d)
                if env.read_file(TMP) is not None and (hand_written is None or (not dir_at_temp and printable(TMP) in allowed_paths(ctx, 'Clean', source, se))):
                    # a temp directive that was reached by the build
                    violation(ctx, 'clean left a temp file behind', d)
            allowed_c = allowed_paths(ctx, 'Clean', source, se)
            if dir_at_temp:
                if bytes(env.read_file(TMP + b'/keep') or b'') != b'keep':
                    violation(ctx, 'clean removed or changed the directory that sits at a temp target', d)
            elif hand_written is not None and printable(TMP) not in allowed_c and printable(TMP) not in allowed_paths(ctx, 'Build', source, se):
                cur = env.read_file(TMP)
                if cur is None:
                    violation(ctx, 'clean deleted t.tmp, which no valid temp directive of the source names', d)
                check_bytes_equal(ctx, cur, hand_written, 'clean changed t.tmp, which no valid temp directive of the source names', d)
            for p, c in DECOYS + [(SRC, None), (WORK + b'/f', None)]:
                if printable(p) in allowed_c:
                    continue
                cur = env.read_file(p)
                if cur is None:
                    violation(ctx, 'clean deleted %s' % p.decode(), d)
                if c is not None and bytes(b for b in cur if isinstance(b, int)) != c:
                    violation(ctx, 'clean changed %s' % p.decode(), d)
            ctx.cover('clean_after_' + ('build_ok' if build_ok else 'build_failed' if build_ok is False else 'nothing'))
        pre_out, pre_temp = env.read_file(OUT), ('DIR' if dir_at_temp else env.read_file(TMP))
        if history == 'build-rmout-clean' and mode == 'Build':
            pre_out = None


# ----------------------------------------------------------------------------- C08 hermetic / C09 needed

def h_hermetic(m, ctx, nlines, menu_name, fixed=None, pre_out_len=None, pre_temp_len=None, mode_a='Build', mode_b='Build',
               clean_b=True, pre_domain=ANYBYTE, le_choices=(b'\n',), norewrite=False, final_newline=None, inc_len=2):
    """run A from a symbolic pre-state of the generated paths, run B from a clean tree (clean_b) or the same pre-state;
    verdicts and final generated files must agree; optional no-rewrite monitor (C09)"""
    source, desc, se, pre_out, pre_temp, data = world(m, ctx, nlines, menu_name, fixed, pre_out_len, pre_temp_len, pre_domain,
                                                      le_choices=le_choices, final_newline=final_newline, inc_len=inc_len)
    it1, env1, r1 = run_mode(m, ctx, se, source, mode_a, pre_out, pre_temp)
    out1, tmp1 = env1.read_file(OUT), env1.read_file(TMP)
    se.replaying = 0
    it2, env2, r2 = run_mode(m, ctx, se, source, mode_b, None if clean_b else pre_out, None if clean_b else pre_temp)
    out2, tmp2 = env2.read_file(OUT), env2.read_file(TMP)
    data = finish_data(dict(data, mode_a=mode_a, mode_b=mode_b, clean_b=clean_b), se)
    which = 'from the pre-existing files' if clean_b else mode_a
    other = 'from a clean tree' if clean_b else mode_b
    if (r1.idx == 0) != (r2.idx == 0):
        violation(ctx, 'verdict depends on pre-existing generated files / mode: %s %s, %s %s' %
                  (which, 'Ok' if r1.idx == 0 else 'Err', other, 'Ok' if r2.idx == 0 else 'Err'), data)
    if r1.idx != 0:
        ctx.cover('both_fail')
        return
    ctx.cover('both_ok')
    if (out1 is None) != (out2 is None):
        violation(ctx, 'output exists in one run only', data)
    if out1 is not None:
        check_bytes_equal(ctx, out1, out2, 'output bytes depend on pre-existing files / mode', data)
    if tmp2 is None and clean_b:
        # t.tmp is not a generated path of this source: a pre-existing file there is unrelated and must stay as it was
        if (tmp1 is None) != (pre_temp is None):
            violation(ctx, 'a file that is not a temp target of this source was created or deleted', data)
        if tmp1 is not None:
            check_bytes_equal(ctx, tmp1, pre_temp, 'a file that is not a temp target of this source was modified', data)
        tmp1 = None
    elif (tmp1 is None) != (tmp2 is None):
        violation(ctx, 'temp file exists in one run only', data)
    if tmp1 is not None:
        ctx.cover('temp')
        check_bytes_equal(ctx, tmp1, tmp2, 'temp bytes depend on pre-existing files / mode', data)
    if norewrite:
        # C09: nothing that is already correct is rewritten (no mutating call at all on that path)
        for path, pre, final, label in ((OUT, pre_out, out1, 'output'), (TMP, pre_temp, tmp1, 'temp file')):
            if label == 'output' and mode_a != 'InMemoryBuild':
                continue
            if pre is None or final is None:
                continue
            touched = [op for op, pth in env1.log if pth == printable(path)]
            if not touched:
                ctx.cover('not_rewritten')
                # not rewritten => must have been up to date
                check_bytes_equal(ctx, pre, final, '%s was stale but not brought up to date' % label, data)
            else:
                if len(pre) == len(final):
                    ctx.check_holds(t_not(t_bytes_eq(tuple(pre), tuple(final))),
                                    '%s was already up to date but was rewritten (%s)' % (label, touched), data)
                ctx.cover('rewritten')


def h_exact_size(m, ctx, total, mode, trailing=True, extra=1):
    """a fresh output of exactly `total` bytes (multiples of the 8 KiB I/O buffers matter) against an existing output that is the
    fresh one plus `extra` arbitrary bytes: verify must fail, an only-if-needed build must bring it up to date"""
    it = Interp(m, ctx)
    it.max_loop_visits = 20000
    x = ctx.fresh_byte('x', ASCII_LINE)
    nl = total // 64
    lines = [tuple(b'0123456789abcdefghijklmnopqrstuvwxyzABCDEFGHIJKLMNOPQRSTUVWXYZ-') for _ in range(nl)]       # 63 bytes + LF
    lines[nl // 2] = lines[nl // 2][:10] + (x,) + lines[nl // 2][11:]
    src = []
    for i, l in enumerate(lines):
        src.extend(l)
        if trailing or i < nl - 1:
            src.append(10)
        else:
            src.append(46)            # option off: the last line is one byte longer instead of being terminated
    source = tuple(src) if trailing else tuple(src) + (10,)
    se = SymEnv(ctx, inc_len=0, out_len=0)
    spec = specpp.process(ctx, source, se, trailing)
    assert spec.ok and len(spec.output) == total, (len(spec.output), total)
    tail = ctx.fresh_bytes('tail', extra, ANYBYTE)
    pre_out = tuple(spec.output) + tuple(tail)
    env = se.install(it, source, pre_out=pre_out)
    r = run_preprocess(m, it, mode, False, trailing)
    data = {'op': 'fs', 'mode': mode, 'source': syms_of(source), 'inc': [], 'pre_out': syms_of(pre_out), 'pre_temp': None, 'cmd_results': [],
            'trailing': trailing, 'lines': ['%d lines' % nl], 'source_shown': '%d lines of 64 bytes' % nl, 'mode_a': mode, 'exact_size': total}
    ctx.cover('exact_size_%s' % mode)
    if mode == 'Verify':
        if r.idx == 0:
            violation(ctx, 'verify passed on an output that is the fresh one followed by %d more byte(s) (fresh output: exactly %d bytes)' % (extra, total), data)
        return
    if r.idx != 0:
        violation(ctx, 'the build failed', data)
    check_bytes_equal(ctx, env.read_file(OUT), spec.output, 'a longer stale output was not brought up to date (fresh output: exactly %d bytes)' % total, data)


# ----------------------------------------------------------------------------- C10 only own paths (all modes, faults on)

def h_paths(m, ctx, nlines, menu_name, mode, fixed=None, faults=0, pre_out_len=None, pre_temp_len=None, le_choices=(b'\n',)):
    source, desc, se, pre_out, pre_temp, data = world(m, ctx, nlines, menu_name, fixed, pre_out_len, pre_temp_len, le_choices=le_choices)
    it, env, r = run_mode(m, ctx, se, source, mode, pre_out, pre_temp, decoys=True, faults=faults)
    data = finish_data(dict(data, mode=mode, faults=list(env.faults)), se)
    check_log(ctx, env, mode, data, source, se)
    allowed = allowed_paths(ctx, mode, source, se)
    for p, c in DECOYS:
        if printable(p) in allowed:
            continue
        cur = env.read_file(p)
        if cur is None or bytes(cur) != c:
            violation(ctx, 'a file that is neither output nor temp target was changed: %s' % p.decode(), data)
    cur = env.read_file(SRC)
    if cur is None or len(cur) != len(source):
        violation(ctx, 'the source file was changed', data)
    ctx.cover('paths_' + mode + ('_ok' if r.idx == 0 else '_err'))


# ----------------------------------------------------------------------------- C04(b) no false success under I/O faults

def h_faults(m, ctx, nlines, menu_name, mode, fixed=None, faults=1, pre_uptodate=False, le_choices=(b'\n',), big_include=None,
             trailing=True):
    source, desc, se, _, _, data = world(m, ctx, nlines, menu_name, fixed, None, None, le_choices=le_choices,
                                         final_newline=True if big_include else None)
    se.signals = True          # commands may also die by a signal (no exit code at all)
    if big_include:
        # an included file larger than the writer's buffer: its chunk reaches the file in one direct write
        se.inc_content = tuple([120] * big_include) + (10,)
        data['inc'] = list(se.inc_content)
    pre_out = pre_temp = None
    if mode == 'Verify' or pre_uptodate:
        # start from a correct tree (so that verify would pass without faults)
        it0, env0, r0 = run_mode(m, ctx, se, source, 'Build', None, None)
        if r0.idx != 0:
            return
        pre_out, pre_temp = env0.read_file(OUT), env0.read_file(TMP)
        se.replaying = 0
    it, env, r = run_mode(m, ctx, se, source, mode, pre_out, pre_temp, trailing=trailing, faults=faults)
    data = finish_data(dict(data, mode=mode, faults=list(env.faults), trailing=trailing), se)
    spec = specpp.process(ctx, source, _ReplaySpecEnv(se), trailing)
    ok_ = (r.idx == 0)
    if env.faults:
        ctx.cover('fault_injected')
        ctx.cover('fault:' + env.faults[0][0])
    if ok_ and not spec.ok and mode != 'Clean':
        violation(ctx, 'false success: the run reports Ok although the source prescribes an error (%s)' % spec.error, data)
    if ok_ and mode in ('Build', 'InMemoryBuild', 'Verify'):
        out = env.read_file(OUT)
        if out is None:
            violation(ctx, 'false success: Ok reported but the output file does not exist', data)
        check_bytes_equal(ctx, out, spec.output, 'false success: Ok reported but the output is incomplete or wrong', data)
        if spec.temps:
            tmp = env.read_file(TMP)
            if tmp is None:
                violation(ctx, 'false success: Ok reported but the temp file is missing', data)
            check_bytes_equal(ctx, tmp, spec.temps[-1][1], 'false success: Ok reported but the temp file is incomplete or wrong', data)
    if env.faults and ok_ and mode != 'Clean':
        # a failed create / write / flush / read must surface as an error
        violation(ctx, 'an I/O failure (%s) did not fail the run' % (env.faults,), data)
    if not env.faults and spec.ok and not ok_ and mode != 'Verify':
        violation(ctx, 'the run failed without any fault on a valid source', data)


class _ReplaySpecEnv:
    def __init__(self, se):
        self.se = se
        self.i = 0

    def include(self, ctx, arg):
        return self.se.include(ctx, arg)

    def run(self, ctx, cmd):
        i = self.i
        self.i += 1
        if i < len(self.se.cmd_results):
            _, code, out = self.se.cmd_results[i]
            return None if code != 0 else out
        return ()

    def is_txtpp_name(self, ctx, arg):
        return self.se.is_txtpp_name(ctx, arg)

    def write_temp(self, ctx, arg, content):
        pass


# ----------------------------------------------------------------------------- native replay shared by C06-C10

def replay_fs(v, steps, judge):
    """steps: list of (mode_args, trailing); judge(results, spec, env, d) -> (bad, extra)"""
    d = v['data']
    model = d['model']
    res = ppreplay.run_native_history(d, model, steps)
    spec, env = ppreplay.spec_concrete(d, model, True)
    detail = {'source': repr(ppreplay.conc(d['source'], model)), 'included f': repr(ppreplay.conc(d['inc'], model)),
              'pre_out': repr(ppreplay.conc(d['pre_out'], model)) if d.get('pre_out') is not None else None,
              'pre_temp': (d['pre_temp'] if d.get('pre_temp') == 'DIR' else repr(ppreplay.conc(d['pre_temp'], model))) if d.get('pre_temp') is not None else None,
              'commands': [(c, repr(ppreplay.conc(o, model))) for c, o in d.get('cmd_results', [])],
              'runs': [{'rc': r['rc'], 'output': repr(r['output']), 'temp': repr(r['temp']), 'listing': r['listing']} for r in res],
              'spec_ok': spec.ok, 'spec_output': repr(bytes(spec.output))}
    bad = judge(res, spec, env, d, model)
    return bad, detail


MODE_ARGS = {'Build': (), 'InMemoryBuild': ('-N',), 'Verify': ('verify',), 'Clean': ('clean',)}


# ----------------------------------------------------------------------------- first pass reports dependencies (lemma for C02 / C06)

DEP_SHAPES = [('d.txt', 'd.txt.txtpp'), ('d.txt', 'd.txtpp.txt'), ('e', 'e.txtpp'), ('sub/d.txt', 'sub/d.txt.txtpp'),
              ('m.en.json', 'm.en.txtpp.json'), ('m.en.json', 'm.en.json.txtpp'),      # output names with more than one dot
              ('a.txt', 'a.txt.txtpp')]        # the last one is the source itself: a self-dependency is reported like any other


def h_deps(m, ctx, mode, shape, kind='include', before='text', after='run', stale_output=True):
    """source:  <before-line> / -TXTPP#<kind> <dep> / <after-line>;  the dependency has a .txtpp source.
    First pass must report exactly that dependency, execute nothing after it; a final pass reads the output from disk."""
    it = Interp(m, ctx)
    dep_out, dep_src = DEP_SHAPES[shape]
    lines = []
    if before == 'text':
        lines.append(tuple(b't') + (ctx.fresh_byte('b0', ASCII_LINE),))
    elif before == 'run':
        lines.append(tuple(b'#TXTPP#run c1'))         # other prefix: the next line must not continue this directive
    lines.append(tuple(('-TXTPP#%s %s' % (kind, dep_out)).encode()))
    if after == 'run':
        lines.append(tuple(b'-TXTPP#run c2'))
    elif after == 'text':
        lines.append(tuple(b'u') + (ctx.fresh_byte('a0', ASCII_LINE),))
    elif after == 'include2':
        lines.append(tuple(b'-TXTPP#include e'))
    elif after == 'after2':
        lines.append(tuple(b'-TXTPP#after e'))
    src = []
    for l in lines:
        src.extend(l)
        src.append(10)
    source = tuple(src)
    se = SymEnv(ctx, inc_len=0, out_len=1, fail_cmds=False)
    se.lenient = True
    dep_content = ctx.fresh_bytes('dep', 2, [111, 10])
    extra = [(WORK + b'/' + dep_src.encode(), b'dep source\n')] if dep_src != 'a.txt.txtpp' else []
    if after in ('include2', 'after2'):
        extra.append((WORK + b'/e.txtpp', b'e source\n'))
        extra.append((WORK + b'/e', b'e out\n'))
    if stale_output:
        extra.append((WORK + b'/' + dep_out.encode(), dep_content))
    if '/' in dep_out:
        pass
    pre_out = None
    if mode == 'Verify':
        # an existing output whose beginning is up to date, so that verification reaches the dependency directive
        pre_out = (tuple(lines[0]) + (10,) if before == 'text' else ()) + tuple(b'zzzz')
    env = se.install(it, source, extra_files=extra, pre_out=pre_out)
    r = run_preprocess(m, it, mode, True, True)
    data = {'op': 'deps', 'mode': mode, 'source_shown': show_bytes(source), 'dep': dep_src, 'kind': kind, 'before': before, 'after': after}
    if r.idx != 0:
        violation(ctx, 'first pass failed on a source whose dependency has a .txtpp source', data)
    res = r.f[0]
    if mode == 'Clean':
        # clean does not build dependencies; nothing to report
        return
    if res.vname != 'HasDeps':
        violation(ctx, 'first pass in %s mode did not report the .txtpp-backed %s target as a dependency' % (mode, kind), data)
    deps = res.f[1].e
    want = [WORK + b'/' + dep_src.encode()] + ([WORK + b'/e.txtpp'] if after in ('include2', 'after2') else [])
    got = [bytes(d.f[1].b) for d in deps]
    if got != want:
        violation(ctx, 'first pass reported dependencies %r, expected %r' % (got, want), data)
    ctx.cover('deps_reported_' + mode)
    # nothing after the dependency directive may have been executed in the first pass
    ran = [bytes(rec['args'][-1].b) for rec, _, _ in se.cmd_results]
    if b'c2' in ran:
        violation(ctx, 'a command placed after the dependency directive ran in the first pass (before the dependency is complete)', data)
    if before == 'run' and ran != [b'c1']:
        violation(ctx, 'a command placed before the first dependency must run exactly once in the first pass', dict(data, ran=repr(ran)))
    # second (final) pass: reads the dependency output from disk, never reports dependencies
    if kind == 'include' or True:
        se.replaying = 0
        it2 = Interp(m, ctx)
        env2 = se.install(it2, source, extra_files=extra + ([] if stale_output else [(WORK + b'/' + dep_out.encode(), dep_content)]))
        if mode == 'Verify':
            return
        r2 = run_preprocess(m, it2, mode, False, True)
        if r2.idx != 0 or r2.f[0].vname != 'Ok':
            violation(ctx, 'final pass did not complete (Ok expected, dependencies must not be reported again)', data)
        out = env2.read_file(OUT)
        spec_lines = []
        ctx.cover('final_pass_' + mode)


def replay_deps(v):
    """native: project where the dependency's output is missing/stale; the mode must process the dependency first"""
    import os, shutil, subprocess, tempfile
    from lib import build
    d = v['data']
    root = tempfile.mkdtemp(prefix='replay-deps-', dir=build.scratch_dir())
    work = os.path.join(root, 'd')
    os.makedirs(os.path.join(work, 'sub'))
    dep_src = d['dep']
    dep_out = [o for o, s_ in DEP_SHAPES if s_ == dep_src][0]
    if dep_src == 'a.txt.txtpp':
        # self-dependency: the project  {loop includes itself; page includes part (slow)}: page must still be built
        open(os.path.join(work, 'loop.txtpp'), 'w').write('-TXTPP#include loop\n')
        open(os.path.join(work, 'part.txtpp'), 'w').write('-TXTPP#run sleep 1\npart\n')
        open(os.path.join(work, 'page.txtpp'), 'w').write('head\n-TXTPP#include part\ntail\n')
        cli = ppreplay.cli_path()
        try:
            r = subprocess.run([cli, '-q', '-j', '4', '.'], cwd=work, capture_output=True, timeout=30)
            rc = r.returncode
        except subprocess.TimeoutExpired:
            rc = 'HANG'
        page = open(os.path.join(work, 'page')).read() if os.path.exists(os.path.join(work, 'page')) else None
        shutil.rmtree(root, ignore_errors=True)
        return (rc == 0 or rc == 'HANG' or page != 'head\npart\ntail\n'), {'rc': rc, 'page': page}
    open(os.path.join(work, dep_src), 'w').write('fresh dep\n')
    second = {'include2': '-TXTPP#include e\n', 'after2': '-TXTPP#after e\n'}.get(d.get('after'), '')
    if second:
        open(os.path.join(work, 'e.txtpp'), 'w').write('fresh e\n')
    open(os.path.join(work, 'a.txt.txtpp'), 'w').write('top\n-TXTPP#%s %s\n%send\n' % (d['kind'], dep_out, second))
    cli = ppreplay.cli_path()
    mode = d['mode']
    # build everything, then make the dependency's output stale: verify of the top file alone must notice
    r0 = subprocess.run([cli, '-q', 'a.txt.txtpp'], cwd=work, capture_output=True)
    built = open(os.path.join(work, dep_out)).read() if os.path.exists(os.path.join(work, dep_out)) else None
    detail = {'initial_build_rc': r0.returncode, 'dependency_output_after_build': built}
    bad = False
    if r0.returncode != 0 or built != 'fresh dep\n':
        bad = True
    else:
        open(os.path.join(work, dep_src), 'w').write('edited dep\n')
        if second:
            open(os.path.join(work, 'e.txtpp'), 'w').write('edited e\n')
        args = {'Verify': ['verify', '-q'], 'Build': ['-q'], 'InMemoryBuild': ['-N', '-q']}[mode]
        r1 = subprocess.run([cli] + args + ['a.txt.txtpp'], cwd=work, capture_output=True)
        now = open(os.path.join(work, dep_out)).read()
        now_e = open(os.path.join(work, 'e')).read() if second and os.path.exists(os.path.join(work, 'e')) else None
        detail.update({'second_run_rc': r1.returncode, 'dependency_output_after_second_run': now, 'second_dependency_output': now_e})
        if mode == 'Verify':
            bad = (r1.returncode == 0)           # the dependency's output is stale: verify must fail
        else:
            bad = (r1.returncode != 0 or now != 'edited dep\n' or (second != '' and now_e != 'edited e\n'))
    shutil.rmtree(root, ignore_errors=True)
    return bad, detail


# ----------------------------------------------------------------------------- whole-tree monitor (C10): real coordinator + real preprocess

TREE_DECOYS = [b'.txtpp', b'.txtpp.cfg', b'txtpp', b'notes.txtpp.b.c', b'a.tmp', b'plain.txt', b'sub/.txtpp', b'sub/keep.txt']


def h_tree(m, ctx, mode, inputs, recursive=True, second_mode=None, with_bad_temp=False, compare_runs=False):
    """a directory tree with real sources and look-alike decoys, processed by the real Txtpp::run with the real preprocess
    (one fixed schedule): every mutating FS call must target an output of a real source or one of its temp targets"""
    from . import sched
    it = Interp(m, ctx)
    env = Env(it, cwd=b'/w')
    it.env = env
    env.add_dir(b'/w/sub')
    b0 = ctx.fresh_byte('x0', ASCII_LINE)
    b1 = ctx.fresh_byte('x1', ASCII_LINE)
    srcs = {b'/w/a.txt.txtpp': tuple(b't') + (b0,) + (10,),
            b'/w/b.txtpp': tuple(b'-TXTPP#temp t.tmp\n-k') + (b1,) + tuple(b'\n-TXTPP#write w\n-TXTPP#temp a.tmp\n'),
            b'/w/sub/c.txtpp.md': tuple(b'-TXTPP#include ../a.txt\n')}
    if with_bad_temp:
        srcs[b'/w/e.txtpp'] = tuple(b'-TXTPP#temp h.txtpp.sh\n-echo\n')
    for p, c in srcs.items():
        env.add_file(p, c)
    for dname in TREE_DECOYS:
        env.add_file(b'/w/' + dname, b'decoy:' + dname)
    env.add_file(b'/bin/sh', b'')
    env.sched_policy = 'fifo'
    env.proc_handler = lambda it_, rec: (0, (), ())
    allowed = {'/w/a.txt', '/w/b', '/w/t.tmp', '/w/sub/c.md'}
    if with_bad_temp:
        allowed.add('/w/e')           # the output of e.txtpp (its temp target h.txtpp.sh must be refused)
    data = {'op': 'tree', 'mode': mode, 'inputs': list(inputs), 'recursive': recursive, 'x0': syms_of((b0,)), 'x1': syms_of((b1,)),
            'with_bad_temp': with_bad_temp, 'second_mode': second_mode}
    snaps = []
    for md in [mode] + ([second_mode] if second_mode else []):
        cfg = sched.mk_config(m, inputs, md, recursive)
        env.log = []
        r = it.call_mir(m.find_method('Txtpp', 'run'), [cfg])
        snaps.append((r.idx == 0, sorted((k, v) for k, v in env.snapshot().items())))
        for op, path in env.log:
            if path not in allowed:
                violation(ctx, '%s: txtpp %s %s, which is neither an output of a processed source nor a temp target' % (md, op, path),
                          dict(data, step=md, log=list(env.log)))
            if md == 'Clean' and op in ('create', 'write', 'truncate'):
                violation(ctx, 'clean %s %s' % (op, path), dict(data, step=md, log=list(env.log)))
            if md == 'Verify' and path in ('/w/a.txt', '/w/b', '/w/sub/c.md'):
                violation(ctx, 'verify %s the output %s' % (op, path), dict(data, step=md, log=list(env.log)))
        for dname in TREE_DECOYS:
            cur = env.read_file(b'/w/' + dname)
            if cur is None or bytes(cur) != b'decoy:' + dname:
                violation(ctx, '%s changed or removed the unrelated file %s' % (md, dname.decode()), dict(data, step=md))
        for p, c in srcs.items():
            cur = env.read_file(p)
            if cur is None or len(cur) != len(c):
                violation(ctx, '%s changed a source file %s' % (md, p.decode()), dict(data, step=md))
        ctx.cover('tree_' + md + ('_ok' if r.idx == 0 else '_err'))
    if compare_runs and len(snaps) == 2:
        # building twice equals building once: same verdict, same tree
        if snaps[0][0] != snaps[1][0]:
            violation(ctx, 'the second build of the same tree has a different verdict than the first', data)
        a = {k: v for k, v in snaps[0][1]}
        b = {k: v for k, v in snaps[1][1]}
        if set(a) != set(b):
            violation(ctx, 'the second build created or removed files: %s' % sorted(set(a) ^ set(b)), data)
        for k in a:
            if a[k][0] == 'file' and (len(a[k][1]) != len(b[k][1])):
                violation(ctx, 'the second build changed %s' % k, data)
        ctx.cover('tree_twice')


def replay_tree(v):
    import os, shutil, subprocess, tempfile
    from lib import build
    d = v['data']
    model = d.get('model', {})
    root = tempfile.mkdtemp(prefix='replay-tree-', dir=build.scratch_dir())
    w = os.path.join(root, 'w')
    os.makedirs(os.path.join(w, 'sub'))
    x0 = bytes(x if isinstance(x, int) else model.get(x, 120) for x in d['x0'])
    x1 = bytes(x if isinstance(x, int) else model.get(x, 120) for x in d['x1'])
    open(os.path.join(w, 'a.txt.txtpp'), 'wb').write(b't' + x0 + b'\n')
    open(os.path.join(w, 'b.txtpp'), 'wb').write(b'-TXTPP#temp t.tmp\n-k' + x1 + b'\n-TXTPP#write w\n-TXTPP#temp a.tmp\n')
    open(os.path.join(w, 'sub', 'c.txtpp.md'), 'wb').write(b'-TXTPP#include ../a.txt\n')
    for dname in TREE_DECOYS:
        open(os.path.join(w, dname.decode()), 'wb').write(b'decoy:' + dname)
    if d.get('with_bad_temp'):
        open(os.path.join(w, 'e.txtpp'), 'wb').write(b'-TXTPP#temp h.txtpp.sh\n-echo\n')

    def snap():
        out = {}
        for dp, dn, fn in os.walk(w):
            for f in fn:
                p = os.path.join(dp, f)
                out[os.path.relpath(p, w)] = open(p, 'rb').read()
        return out
    cli = ppreplay.cli_path()
    steps = []
    mode = d['mode']
    if d.get('second_mode'):
        steps = [mode, d['second_mode']]
    else:
        steps = [mode]
    bad = False
    detail = {'steps': []}
    allowed = {'a.txt', 'b', 't.tmp', 'sub/c.md', 'e'}
    for md in steps:
        before = snap()
        args = [cli] + list(MODE_ARGS[md]) + ['-q', '-j', '1'] + (['-r'] if d['recursive'] else []) + list(d['inputs'])
        r = subprocess.run(args, cwd=w, capture_output=True)
        after = snap()
        changed = sorted(k for k in set(before) | set(after) if before.get(k) != after.get(k))
        detail['steps'].append({'mode': md, 'rc': r.returncode, 'changed': changed})
        if any(k not in allowed for k in changed):
            bad = True
        if md == 'Clean' and any(k not in before for k in after):
            bad = True
    if len(detail['steps']) == 2 and steps[0] == steps[1]:
        if detail['steps'][0]['rc'] != detail['steps'][1]['rc'] or detail['steps'][1]['changed']:
            bad = True
    shutil.rmtree(root, ignore_errors=True)
    return bad, detail


def replay_exact_size(v):
    """native replay of h_exact_size counterexamples: the same tree, the same mode and option"""
    d = v['data']
    model = d['model']
    mode = d['mode']
    res = ppreplay.run_native_history(d, model, [(MODE_ARGS[mode], d.get('trailing', True))])[0]
    spec, env = ppreplay.spec_concrete(d, model, d.get('trailing', True))
    pre = ppreplay.conc(d['pre_out'], model)
    detail = {'mode': mode, 'trailing': d.get('trailing', True), 'fresh output bytes': len(bytes(spec.output)), 'existing output bytes': len(pre),
              'rc': res['rc'], 'output bytes after the run': None if res['output'] is None else len(res['output'])}
    if mode == 'Verify':
        return res['rc'] == 0, detail
    return (res['rc'] != 0 or res['output'] != bytes(spec.output)), detail
