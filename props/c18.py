"""C18 No input or configuration makes txtpp panic or hang.

Every MIR `assert` / `unreachable` / panic call and every precondition of a std model (slice index in range, str index
on a char boundary, unwrap on Some/Ok, threadpool's num_threads > 0, send on a live channel) is an error state of the
interpreter.  Harnesses: (1) leaf functions on raw symbolic bytes with non-ASCII characters at every position;
(2) the real `preprocess` on arbitrary byte files (invalid UTF-8, NUL, lone CR) and arbitrary included / pre-existing files
in all four modes; (3) the real Txtpp::run with thread counts 0..16, and with tasks that fail while others are still in
flight (a worker that panics after the receiver is gone would leave nothing to report to).
Hangs of the coordinator are C03's check (same harness).
"""
from mirsym.core import Violation, RustPanic, t_in, t_not
from mirsym.interp import Interp
from mirsym.models_env import Env
from mirsym.values import *
from .common import *
from .ppgen import *
from .fsprops import world, run_mode, ANYBYTE
from . import sched, ppreplay
from .c15 import NONASCII, make_line

ANY_ASCII = list(range(0, 128))


def set_data(ctx, d):
    ctx.notes['data'] = d


def h_leaf_detect(m, ctx, n, layout):
    it = Interp(m, ctx)
    line = make_line(ctx, 'line', n, layout)
    set_data(ctx, {'op': 'detect_from', 'line_syms': syms_of(line)})
    it.call_mir(m.find_method('Directive', 'detect_from'), [StrV(line)])
    ctx.cover('leaf')


def h_leaf_addline(m, ctx, ws, prefix_layout, npre, n, line_layout, ty='Run'):
    """prefix with a non-ASCII char: the spaces form slices by byte length; every line shape must be panic free"""
    it = Interp(m, ctx)
    prefix = make_line(ctx, 'prefix', npre, prefix_layout)
    line = make_line(ctx, 'line', n, line_layout)
    enums = m.src.enums['DirectiveType']
    d = StructV('Directive', (StrV(tuple(ws)), StrV(prefix), EnumV('DirectiveType', ty, enums.index(ty), ()), VecV((StrV(tuple(b'a0')),))))
    cell = it.alloc(d)
    set_data(ctx, {'op': 'add_line', 'ws_syms': list(ws), 'prefix_syms': syms_of(prefix), 'line_syms': syms_of(line), 'type': ty})
    it.call_mir(m.find_method('Directive', 'add_line'), [RefV(cell), StrV(line)])
    ctx.cover('leaf_addline')


def h_leaf_rle(m, ctx, n, layout):
    it = Interp(m, ctx)
    s = list(ctx.fresh_bytes('s', n, ANY_ASCII))
    if layout is not None:
        pos, key = layout
        s[pos:pos] = list(NONASCII[key])
    set_data(ctx, {'op': 'rle', 's': syms_of(s), 'le': [13, 10], 'force': True})
    it.call_mir(m.find_method('str', 'replace_line_ending', 'ReplaceLineEnding'), [StrV(tuple(s)), StrV((13, 10)), True])


def h_leaf_le(m, ctx, n):
    it = Interp(m, ctx)
    buf = ctx.fresh_bytes('b', n, None)
    set_data(ctx, {'op': 'leaf', 'buf': syms_of(buf)})
    # get_line_ending_from_buf(buf, len) for every len <= buffer length (its caller passes len == bytes read)
    it.call_mir(m.free['get_line_ending_from_buf'], [VecV(tuple(buf)), n])


def h_leaf_names(m, ctx, n):
    it = Interp(m, ctx)
    name = ctx.fresh_bytes('p', n, [97, 46, 47, 116, 120, 112])
    set_data(ctx, {'op': 'names', 'name': syms_of(name)})
    cell = it.alloc(StrV(name))
    it.call_mir(m.lookup_def('PathBuf', 'TxtppPath', None, 'is_txtpp_file'), [RefV(cell)])
    it.call_mir(m.lookup_def('PathBuf', 'TxtppPath', None, 'remove_txtpp'), [RefV(cell)])


def h_raw_file(m, ctx, n, mode, domain='any', inc='any', pre_out_len=None, pre_temp_len=None, layout=None, first_pass=False):
    """arbitrary bytes as source; arbitrary bytes as included file and as pre-existing generated files"""
    it = Interp(m, ctx)
    dom = ANYBYTE if domain == 'any' else domain
    src = list(ctx.fresh_bytes('src', n, dom))
    if layout is not None:
        src[layout[0]:layout[0]] = list(layout[1])
    source = tuple(src)
    se = SymEnv(ctx, inc_len=0, out_len=2, out_alpha=[111, 10, 13, 0])
    se.lenient = True
    incc = ctx.fresh_bytes('incx', 2, ANYBYTE)
    pre_out = ctx.fresh_bytes('po', pre_out_len, ANYBYTE) if pre_out_len is not None else None
    pre_temp = ctx.fresh_bytes('pt', pre_temp_len, ANYBYTE) if pre_temp_len is not None else None
    env = se.install(it, source, pre_out=pre_out, pre_temp=pre_temp, extra_files=[(WORK + b'/f', incc)])
    set_data(ctx, {'op': 'raw', 'mode': mode, 'source': syms_of(source), 'inc': syms_of(incc),
                   'pre_out': syms_of(pre_out) if pre_out is not None else None, 'pre_temp': syms_of(pre_temp) if pre_temp is not None else None,
                   'cmd_results': []})
    r = run_preprocess(m, it, mode, first_pass, True)
    ctx.notes['data']['cmd_results'] = [(code, syms_of(o)) for _, code, o in se.cmd_results]
    ctx.cover('raw_' + mode + ('_ok' if r.idx == 0 else '_err'))


def h_shell_new(m, ctx, n, layout=None):
    """Shell::new on an arbitrary shell option value (blanks, tabs, letters that may or may not spell an installed shell)"""
    it = Interp(m, ctx)
    env = Env(it, cwd=b'/w')
    it.env = env
    env.add_file(b'/bin/sh', b'')
    env.add_file(b'/usr/bin/bash', b'')
    cmd = list(ctx.fresh_bytes('sc', n, [32, 9, 115, 104, 45, 99]))
    if layout is not None:
        cmd[layout[0]:layout[0]] = list(layout[1])
    set_data(ctx, {'op': 'shell_new', 'cmd': syms_of(cmd)})
    r = it.call_mir(m.find_method('Shell', 'new'), [StrV(tuple(cmd))])
    ctx.cover('shell_new_' + ('ok' if r.idx == 0 else 'err'))


def h_big_output(m, ctx, nbytes, stream, mode='Build'):
    """a command that writes more than a pipe holds (64 KiB) to stdout, or to stderr while failing: no hang, no panic"""
    it = Interp(m, ctx)
    it.max_loop_visits = 200000
    source = tuple(b'-TXTPP#run c1\n')
    se = SymEnv(ctx, inc_len=0, out_len=0)
    env = se.install(it, source)
    big = tuple([111] * (nbytes - 1)) + (10,)
    tail = ctx.fresh_bytes('t', 1, [111, 10])
    res = (0, big[:-1] + tail, ()) if stream == 'stdout' else (1, (), big)
    se.cmd_results.append(({'args': [StrV(tuple(b'c1'))]}, res[0], res[1]))
    env.proc_handler = lambda it_, rec: res
    set_data(ctx, {'op': 'raw', 'mode': mode, 'source': list(source), 'inc': [], 'pre_out': None, 'pre_temp': None,
                   'cmd_results': [(res[0], syms_of(res[1]))], 'stderr_bytes': len(res[2])})
    r = run_preprocess(m, it, mode, False, True)
    ctx.cover('big_output_' + stream)
    if (r.idx == 0) != (res[0] == 0):
        violation(ctx, 'verdict does not follow the exit status of a command with a large output', ctx.notes['data'])


def h_threads(m, ctx, threads, fail):
    w = sched.World(m, ctx, 2, ['F0.txtpp', 'F1.txtpp'], acyclic_only=True, allow_self=False, fail_budget=1 if fail else 0)
    it = Interp(m, ctx)
    env = Env(it, cwd=b'/w')
    it.env = env
    env.add_dir(sched.BASE + b'/sub')
    for i in range(2):
        env.add_file(sched.src_path(i), b'x')
    env.add_file(b'/bin/sh', b'')
    it.overrides[(None, 'preprocess')] = w.preprocess
    cfg = sched.mk_config(m, w.inputs, 'Build', False, threads)
    set_data(ctx, {'op': 'threads', 'threads': threads})
    r = it.call_mir(m.find_method('Txtpp', 'run'), [cfg])
    ctx.cover('threads_%d_%s' % (threads, 'ok' if r.idx == 0 else 'err'))


def h_workers(m, ctx, n, inputs, fail_budget):
    """tasks that are still in flight when run() returns must not panic (their result channel must still exist)"""
    sched.h_sched(m, ctx, n, inputs, acyclic_only=True, allow_self=False, fail_budget=fail_budget, check_panics=True)


H = 'props.c18'


def jobs(tier):
    js = []
    quick = tier == 'quick'
    nl = 6 if quick else 8
    for key in NONASCII:
        for pos in range(0, nl + 1):
            js.append({'name': 'detect_from n=%d+%s@%d' % (nl, key, pos), 'harness': (H, 'h_leaf_detect'), 'params': {'n': nl, 'layout': (pos, key)}})
    for n in range(0, (8 if quick else 10)):
        js.append({'name': 'detect_from ascii n=%d' % n, 'harness': (H, 'h_leaf_detect'), 'params': {'n': n, 'layout': None}})
    for key in ('e_acute', 'ideographic_space', 'nbsp'):
        for ppos in (0, 1):
            for n in ((0, 1, 2, 3, 4) if quick else range(0, 7)):
                for lpos in ([None] + list(range(0, n + 1))):
                    js.append({'name': 'add_line prefix+%s@%d line n=%d non-ascii@%s' % (key, ppos, n, lpos), 'harness': (H, 'h_leaf_addline'),
                               'params': {'ws': b'', 'prefix_layout': (ppos, key), 'npre': 1, 'n': n,
                                          'line_layout': None if lpos is None else (lpos, key)}})
    for n in (range(0, 5) if quick else range(0, 7)):
        js.append({'name': 'replace_line_ending n=%d' % n, 'harness': (H, 'h_leaf_rle'), 'params': {'n': n, 'layout': None}})
        js.append({'name': 'line_ending_from_buf n=%d' % n, 'harness': (H, 'h_leaf_le'), 'params': {'n': n}})
        js.append({'name': 'names n=%d' % (n + 4), 'harness': (H, 'h_leaf_names'), 'params': {'n': n + 4}})
    for mode in ('Build', 'InMemoryBuild', 'Verify', 'Clean'):
        for n in ((0, 1, 2, 3) if quick else (0, 1, 2, 3, 4, 5)):
            js.append({'name': 'raw bytes n=%d %s' % (n, mode), 'harness': (H, 'h_raw_file'),
                       'params': {'n': n, 'mode': mode, 'pre_out_len': 2 if mode != 'Build' else None}, 'split': 4 if n >= 3 else 1})
        # directive-shaped sources with arbitrary bytes around: include of an arbitrary-bytes file, temp over arbitrary bytes
        for head in (b'-TXTPP#include f\n', b'-TXTPP#temp t.tmp\n-', b'-TXTPP#run c1\n', b'-TXTPP#tag A\n-TXTPP#include f\n', b'-TXTPP#write '):
            js.append({'name': 'raw tail after %r %s' % (head, mode), 'harness': (H, 'h_raw_file'),
                       'params': {'n': 2, 'mode': mode, 'layout': (0, head), 'pre_temp_len': 2, 'pre_out_len': 3 if mode == 'Verify' else None},
                       'split': 4})
    for nb, stream in ((65537, 'stdout'), (70000, 'stderr')) if quick else ((65536, 'stdout'), (65537, 'stdout'), (200000, 'stdout'), (70000, 'stderr')):
        js.append({'name': 'command writing %d bytes to %s' % (nb, stream), 'harness': (H, 'h_big_output'), 'params': {'nbytes': nb, 'stream': stream},
                   'max_steps': 20_000_000})
    for n in ((0, 1, 2, 3) if quick else (0, 1, 2, 3, 4, 5)):
        js.append({'name': 'Shell::new on %d arbitrary bytes' % n, 'harness': (H, 'h_shell_new'), 'params': {'n': n}})
    for lay in ((0, b'sh'), (1, b'sh'), (2, b'bash')):
        js.append({'name': 'Shell::new %r + 2 arbitrary bytes' % (lay,), 'harness': (H, 'h_shell_new'), 'params': {'n': 2, 'layout': lay}})
    for th in (0, 1, 2, 16):
        for fail in (False, True):
            js.append({'name': 'threads=%d fail=%s' % (th, fail), 'harness': (H, 'h_threads'), 'params': {'threads': th, 'fail': fail}})
    # tag substitution with overlapping / nested tag names (slicing arithmetic in inject_tags)
    from . import c14
    for nls, cls, lls in (((2, 2), (1, 1), (3,)), ((2, 2), (0, 2), (4,)), ((1, 2), (1, 1), (3, 2)), ((2, 2, 2), (1, 1, 1), (4,))):
        js.append({'name': 'tags %s %s %s no panic' % (nls, cls, lls), 'harness': ('props.c14', 'h_tags'),
                   'params': {'name_lens': list(nls), 'cont_lens': list(cls), 'line_lens': list(lls), 'le': b'\n'}, 'split': 8})
    # the coordinator must not hang: duplicate / nested directory inputs, aliases (same harness as C03)
    for inp, rec in (((['.', '.']), False), (['.', 'sub'], True), (['sub', 'sub'], False), (['F0.txtpp', 'sub/../F0.txtpp'], False)):
        js.append({'name': 'no hang inputs=%s' % ','.join(inp), 'harness': ('props.sched', 'h_sched'),
                   'params': {'n': 1, 'inputs': inp, 'acyclic_only': True, 'recursive': rec, 'subdir': True, 'check_panics': True}, 'split': 8})
    for n, th in ((3, 1), (4, 1), (4, 2)) if quick else ((3, 1), (4, 1), (4, 2), (5, 1), (5, 2), (6, 2)):
        js.append({'name': 'no hang when a task fails n=%d threads=%d' % (n, th), 'harness': ('props.sched', 'h_sched'),
                   'params': {'n': n, 'inputs': ['.'], 'acyclic_only': True, 'allow_self': False, 'fail_budget': 1, 'max_deps': 0, 'threads': th,
                              'check_panics': True}, 'split': 16})
    for n, inp in ((2, ['F0.txtpp', 'F1.txtpp']), (3, ['.']), (3, ['F0.txtpp', 'F2.txtpp'])):
        js.append({'name': 'workers outliving a failed run n=%d' % n, 'harness': (H, 'h_workers'), 'params': {'n': n, 'inputs': inp, 'fail_budget': 1},
                   'split': 16 if n >= 3 else 1})
    from . import project
    js += project.jobs('C18', tier)
    return js


BOUNDS = {'quick': 'detect_from: ASCII lines 0-7 bytes + 6 symbolic bytes with é / NBSP / U+3000 at every position; add_line: 1 symbolic byte + '
                   'one non-ASCII char as prefix, lines of 0-4 symbolic bytes with a non-ASCII char at every position; replace_line_ending, '
                   'get_line_ending_from_buf (any byte values) 0-4 bytes; path names 4-8 bytes; preprocess on 0-3 arbitrary bytes (0-255) and on '
                   '5 directive heads + 2 arbitrary bytes, included file / pre-existing output / temp of arbitrary bytes, all 4 modes; '
                   'Shell::new on 0-3 bytes over {space, tab, s, h, -, c} and around sh / bash; Txtpp::run with 0/1/2/16 threads; failing task with others in flight on <=3 files',
          'thorough': 'lines up to 9 bytes, raw files up to 5 bytes'}
ASSUMPTIONS = ['symbolic bytes >= 0x80 inside a file are treated as invalid UTF-8 by the FS model (valid multi-byte characters are the concrete layouts)',
               'resource exhaustion (huge inputs) and real time are outside the claim; the coordinator hang check is C03',
               'a panic inside std that the contract models do not know about is not visible (std preconditions modelled: index bounds, char '
               'boundaries, unwrap/expect, threadpool num_threads > 0, send on a dropped channel)']
COVERS_REQUIRED = ['big_output_stdout', 'big_output_stderr', 'shell_new_ok', 'shell_new_err', 'leaf', 'leaf_addline', 'raw_Build_ok', 'raw_Build_err', 'raw_Verify_err', 'raw_Clean_ok', 'threads_0_err', 'threads_16_ok']


def finding_key(v, detail):
    return None


def replay(native, v):
    if v['data'].get('op') == 'kani':
        return kani_replay(v)
    d = v['data']
    model = d.get('model', {})
    op = d.get('op')

    def conc(key):
        return bytes(x if isinstance(x, int) else model[x] for x in d[key])
    if op == 'detect_from':
        out = native.ask('detect_from ' + hexs(conc('line_syms')))
        return out == 'PANIC', {'line': repr(conc('line_syms')), 'native': out}
    if op == 'add_line':
        out = native.ask('add_line %s %s %s 1 %s %s' % (hexs(conc('ws_syms')), hexs(conc('prefix_syms')), d['type'], hexs(b'a0'), hexs(conc('line_syms'))))
        return out == 'PANIC', {'prefix': repr(conc('prefix_syms')), 'line': repr(conc('line_syms')), 'native': out}
    if op == 'rle':
        out = native.ask('replace_line_ending %s %s 1' % (hexs(conc('s')), hexs(bytes(d['le']))))
        return out == 'PANIC', {'native': out}
    if op == 'leaf':
        b = conc('buf')
        out = native.ask('line_ending %s %d' % (hexs(b), len(b)))
        return out == 'PANIC', {'native': out}
    if op == 'names':
        out = native.ask('is_txtpp_file ' + hexs(conc('name'))) + ' ' + native.ask('remove_txtpp ' + hexs(conc('name')))
        return 'PANIC' in out, {'native': out}
    if op == 'shell_new':
        import os, tempfile, shutil, subprocess
        from lib import build
        root = tempfile.mkdtemp(prefix='replay-shn-', dir=build.scratch_dir())
        open(os.path.join(root, 'a.txtpp'), 'w').write('x\n')
        r = subprocess.run([ppreplay.cli_path(), '-q', '-s', conc('cmd').decode('latin1'), 'a.txtpp'], cwd=root, capture_output=True)
        shutil.rmtree(root, ignore_errors=True)
        return r.returncode not in (0, 1), {'shell option': repr(conc('cmd')), 'rc': r.returncode, 'stderr': r.stderr.decode('latin1')[:300]}
    if op == 'threads':
        import os, tempfile, shutil
        from lib import build
        root = tempfile.mkdtemp(prefix='replay-thr-', dir=build.scratch_dir())
        open(os.path.join(root, 'a.txtpp'), 'w').write('x\n')
        out = native.ask('txtpp %s %s Build %d 1 0 - %s' % (hexs(root.encode()), hexs(root.encode()), d['threads'], hexs(b'a.txtpp')))
        shutil.rmtree(root, ignore_errors=True)
        return out == 'PANIC', {'threads': d['threads'], 'native': out}
    if op == 'raw':
        from .fsprops import MODE_ARGS
        import subprocess
        if d.get('stderr_bytes'):
            d = dict(d, stderr_results=[d['stderr_bytes']])
        try:
            res = ppreplay.run_native_history(d, model, [(MODE_ARGS[d['mode']], True)])[0]
        except subprocess.TimeoutExpired:
            return True, {'source': repr(ppreplay.conc(d['source'], model)), 'rc': 'HANG (killed after 60 s)'}
        return res['rc'] not in (0, 1), {'source': repr(ppreplay.conc(d['source'], model)), 'rc': res['rc'], 'stderr': res['stderr'][-200:]}
    if op == 'sched':
        if 'worker thread panics' in v['msg']:
            # a worker that panics after run() returned: library-level demonstration
            return replay_workers(native, d)
        return sched.replay(native, v)
    if op == 'tags':
        from . import c14
        bad, detail = c14.replay(native, v)
        return bad or 'PANIC' in str(detail), detail
    return False, {'note': 'unknown op'}


def replay_workers(native, d):
    """library-level: a failing file plus slow files; after run() returned Err the slow workers finish and try to send"""
    import os, tempfile, shutil, subprocess, time
    from lib import build
    root = tempfile.mkdtemp(prefix='replay-wrk-', dir=build.scratch_dir())
    open(os.path.join(root, 'broken.txtpp'), 'w').write('-TXTPP#run exit 1\n')
    for i in range(3):
        open(os.path.join(root, 'slow%d.txtpp' % i), 'w').write('-TXTPP#run sleep 1\nx\n')
    helper = build.build_native(build.copy_repo())['replay']
    p = subprocess.Popen([helper], stdin=subprocess.PIPE, stdout=subprocess.PIPE, stderr=subprocess.PIPE, text=True)
    p.stdin.write('txtpp %s %s Build 4 1 0 - %s\n' % (hexs(root.encode()), hexs(root.encode()), hexs(b'.')))
    p.stdin.flush()
    out = p.stdout.readline().strip()
    time.sleep(2.5)          # keep the process alive while the remaining workers finish
    p.stdin.close()
    err_ = p.stderr.read()
    p.wait(timeout=10)
    shutil.rmtree(root, ignore_errors=True)
    return ('panicked' in err_), {'run result': out, 'worker panics': err_.count('panicked'), 'stderr_tail': err_[-300:]}


def extra_engines(tier, seed, args):
    """engine E1: Kani on the compiled leaf functions (second, independent lowering)"""
    from lib import kani
    hs = [] if tier == 'quick' else ['detect_from_never_panics_utf8_5']
    if not hs or getattr(args, 'only', None):
        return {'inconclusive': [], 'violations': [], 'evidence': None}
    return kani.extra(hs, 600 if tier == 'quick' else 2400, 'detect_from never panics on any valid UTF-8 string of <=5 bytes (real std, no stub)')


def kani_replay(v):
    """a failed Kani harness on the compiled code is already a statement about the real code; it is confirmed by
    re-running the harness once more (deterministic) and reported with the failing checks"""
    from lib import kani
    r = kani.run_harness(v['data']['harness'], timeout_s=1500)
    return r['status'] == 'failed', {'harness': v['data']['harness'], 'failed_checks': r['failed_checks']}
