"""C10 txtpp only ever writes its own outputs and temp targets.

Monitor over the FS model: the real `preprocess` is executed in all four modes, for successful and failing sources,
with and without injected I/O failures, next to decoy files at near-miss names; every mutating std::fs call that the
code makes is logged with its resolved path and must target the output path of the processed source or a temp target;
verify must not touch the output, clean must not create anything.  Path derivation (remove_txtpp, try_resolve,
share_base, parent) is the real code.
"""
from .fsprops import *

H = 'props.fsprops'
MIR_KINDS = ('lib', 'bin')


def jobs(tier):
    js = []
    quick = tier == 'quick'
    firsts = [n for n, _ in menu('small')]
    for mode in ('Build', 'InMemoryBuild', 'Verify', 'Clean'):
        js.append({'name': '%s 1 line' % mode, 'harness': (H, 'h_paths'), 'params': {'nlines': 1, 'menu_name': 'small', 'mode': mode,
                                                                                    'pre_out_len': 2 if mode in ('Verify', 'Clean') else None}})
        for f in (['temp', 'run', 'include f', 'include g(missing)', 'write', 'tag A', 'temp txtpp'] if quick else firsts):
            js.append({'name': '%s 2 lines first=%s' % (mode, f), 'harness': (H, 'h_paths'),
                       'params': {'nlines': 2, 'menu_name': 'small', 'mode': mode, 'fixed': [f],
                                  'pre_out_len': 2 if mode in ('Verify', 'Clean') else None,
                                  'pre_temp_len': 1 if mode == 'Clean' else None}})
        for f in ['temp', 'write', 'include f']:
            js.append({'name': '%s 2 lines first=%s, one I/O fault' % (mode, f), 'harness': (H, 'h_paths'),
                       'params': {'nlines': 2, 'menu_name': 'small', 'mode': mode, 'fixed': [f, 'cont prefix'] if f != 'include f' else [f],
                                  'faults': 1, 'pre_out_len': 2 if mode in ('Verify', 'Clean') else None}, 'split': 4})
    # erroneous directives (prefix-less multi-line directives of the `indent` menu) next to a hand-written file at the path they name
    for mode in ('Clean', 'Build', 'Verify'):
        for f in ('temp', 'write', 'run'):
            js.append({'name': '%s prefix-less %s, hand-written t.tmp' % (mode, f), 'harness': (H, 'h_paths'),
                       'params': {'nlines': 2, 'menu_name': 'indent', 'mode': mode, 'fixed': [f], 'pre_temp_len': 2,
                                  'pre_out_len': 2 if mode in ('Verify', 'Clean') else None}, 'split': 4})
    # a line that only looks like a temp directive (TAB instead of the space the grammar requires) next to a hand-written t.tmp
    for mode in ('Build', 'InMemoryBuild', 'Verify', 'Clean'):
        js.append({'name': '%s temp look-alike with a TAB, hand-written t.tmp' % mode, 'harness': (H, 'h_paths'),
                   'params': {'nlines': 2, 'menu_name': 'small+', 'mode': mode, 'fixed': ['temp tab', 'cont hash'], 'pre_temp_len': 2,
                              'pre_out_len': 2 if mode in ('Verify', 'Clean') else None}})
    # whole tree: real coordinator + real preprocess, look-alike decoys (.txtpp, .txtpp.cfg, txtpp, x.txtpp.b.c), escaped directive text
    for mode, second in (('Build', None), ('InMemoryBuild', None), ('Build', 'Clean'), ('Build', 'Verify'), ('Clean', None)):
        for inputs in (['.'], ['a.txt', 'b', 'sub']):
            js.append({'name': 'tree %s%s inputs=%s' % (mode, '->' + second if second else '', ','.join(inputs)), 'harness': (H, 'h_tree'),
                       'params': {'mode': mode, 'inputs': inputs, 'recursive': True, 'second_mode': second, 'with_bad_temp': inputs == ['.']},
                       'max_steps': 6_000_000})
    # the mode the binary hands to the library for every combination of sub-command and flags (real main() from the bin crate's MIR)
    for sub in (None, 'Clean', 'Verify'):
        js.append({'name': 'cli: mode passed to the run for sub-command %s x all flags' % sub, 'harness': ('props.c17', 'h_cli'),
                   'mir': ('lib', 'bin'), 'params': {'sub': sub, 'txtpp_file': None}})
    from . import project
    js += project.jobs('C10', tier)
    return js


BOUNDS = {'quick': 'all four modes x 1-2 line sources over the small menu (successful and failing) x optional single I/O fault; 5 decoy files '
                   '(a.tmp, a.txt.bak, a, ../a.txt, t.tmp.txtpp)',
          'thorough': 'all 2-line sources in all four modes'}
from . import project as _project
BOUNDS = {k: v + _project.bounds_note('C10', k) for k, v in BOUNDS.items()}
ASSUMPTIONS = ['temp targets resolve inside the project (D7); the claim is "no mutating std::fs call on any other path", which implies unchanged '
               'bytes and mtimes under the OS contract', 'directory scanning / input resolution is C11']
COVERS_REQUIRED = ['tree_Build_ok', 'tree_Clean_ok', 'paths_Build_ok', 'paths_Build_err', 'paths_Verify_err', 'paths_Clean_ok', 'paths_InMemoryBuild_ok']


def replay_cli(v):
    """the binary with every placement of -N: `verify` must leave a stale output alone, `clean` must create nothing"""
    import os, shutil, subprocess, tempfile
    from lib import build
    d = v['data']
    root = tempfile.mkdtemp(prefix='replay-cli10-', dir=build.scratch_dir())
    open(os.path.join(root, 'a.txtpp'), 'w').write('x\n#TXTPP#temp n.gen\n#g\n')
    if d['sub'] == 'Verify':
        open(os.path.join(root, 'a'), 'w').write('stale\n')
    before = {f: open(os.path.join(root, f), 'rb').read() for f in os.listdir(root)}
    args = [ppreplay.cli_path()] + (['-N'] if d['needed'] else []) + ([d['sub'].lower()] if d['sub'] else []) + ['-q', 'a.txtpp']
    e = dict(os.environ)
    e.pop('TXTPP_FILE', None)
    r = subprocess.run(args, cwd=root, env=e, capture_output=True)
    after = {f: open(os.path.join(root, f), 'rb').read() for f in os.listdir(root)}
    shutil.rmtree(root, ignore_errors=True)
    bad = False
    if d['sub'] == 'Verify':
        bad = after.get('a') != before.get('a') or r.returncode == 0          # stale output: verify must fail and not touch it
    elif d['sub'] == 'Clean':
        bad = any(f not in before for f in after)
    else:
        bad = r.returncode != 0 or after.get('a') != b'x\n'
    return bad, {'args': args[1:], 'rc': r.returncode, 'before': sorted(before), 'after': {k: repr(val) for k, val in after.items()}}


def replay(native, v):
    d = v['data']
    if d.get('op') == 'cli':
        return replay_cli(v)
    if d.get('op') == 'tree':
        return replay_tree(v)
    model = d['model']
    import os, hashlib
    mode = d.get('mode', 'Build')
    root, work, bind, res = ppreplay.materialise(d, model)
    decoys = {'a.tmp': b'decoy1', 'a.txt.bak': b'decoy2', 'a': b'decoy3', '../a.txt': b'decoy4', 't.tmp.txtpp': b'decoy5\n',
              't.txtpp.md': b'decoy6\n', 't.txtpp': b'decoy7\n'}
    for k, c in decoys.items():
        open(os.path.join(work, k), 'wb').write(c)

    def snap():
        out = {}
        for dp, dn, fn in os.walk(os.path.join(root, 'w')):
            for f in fn:
                p = os.path.join(dp, f)
                out[os.path.relpath(p, work)] = open(p, 'rb').read()
        return out
    before = snap()
    import subprocess
    e = dict(os.environ)
    e['PATH'] = bind + ':' + e.get('PATH', '')
    args = [ppreplay.cli_path()] + list(MODE_ARGS[mode]) + ['-q', '-j', '1', 'a.txt.txtpp']
    r = subprocess.run(args, cwd=work, env=e, capture_output=True)
    after = snap()
    changed = sorted(k for k in set(before) | set(after) if before.get(k) != after.get(k))
    from spec import pp as specpp
    from .common import ConcreteCtx
    srcb = ppreplay.conc(d['source'], model)
    if mode == 'Clean':
        targs = specpp.temp_targets_all(ConcreteCtx(), tuple(srcb))
    else:
        sres, senv = ppreplay.spec_concrete(d, model, True)
        targs = [a for a, _ in sres.temps]
    from spec import names as specnames
    allowed = {'a.txt'} | {bytes(a).decode() for a in targs if not specnames.is_txtpp_name(ConcreteCtx(), tuple(a))}
    bad = any(k not in allowed for k in changed)
    if mode == 'Verify' and 'a.txt' in changed:
        bad = True
    if mode == 'Clean' and any(k not in before for k in after):
        bad = True
    import shutil
    shutil.rmtree(root, ignore_errors=True)
    return bad, {'mode': mode, 'source': repr(ppreplay.conc(d['source'], model)), 'rc': r.returncode, 'changed_paths': changed}
