"""C14 Tags: stored once, substituted once, leftmost-first, never re-expanded.

Real TagState::{create, try_store, inject_tags, has_tags} (+ replace_line_ending) from MIR, driven through
operation sequences with symbolic names / contents / lines, with the HashMap iteration order as a fork
point (every order must give the order-free reference result => run-to-run determinism).
"""
from mirsym.core import Violation, t_in, t_not
from mirsym.interp import Interp
from mirsym.values import *
from spec.tags import TagSpec, normalize_le
from .common import *

NAME_ALPHA = [65, 66]              # A B
LINE_ALPHA = [65, 66, 120]         # A B x
CONT_ALPHA = [65, 66, 10, 13]      # A B \n \r   (domain D1 enforced: CR only before LF)


def d1_ok(ctx, bs):
    """assume CR occurs only immediately before LF"""
    from mirsym.core import t_eq, t_or, t_and
    for i, b in enumerate(bs):
        nxt = bs[i + 1] if i + 1 < len(bs) else None
        if nxt is None:
            ctx.assume(t_not(t_eq(b, 13)))
        else:
            ctx.assume(t_or(t_not(t_eq(b, 13)), t_eq(nxt, 10)))


def h_tags(m, ctx, name_lens, cont_lens, line_lens, le, order='permute', second_line=None):
    """create/store each tag in turn, then inject into one or two lines; every step compared with the spec"""
    it = Interp(m, ctx)
    it.hashorder = order
    ts_new = m.find_method('TagState', 'new')
    f_create = m.find_method('TagState', 'create')
    f_store = m.find_method('TagState', 'try_store')
    f_inject = m.find_method('TagState', 'inject_tags')
    f_has = m.find_method('TagState', 'has_tags')
    cell = it.alloc(it.call_mir(ts_new, []))
    spec = TagSpec()
    lebytes = tuple(le)
    data = {'op': 'tags', 'le': list(lebytes), 'ops': []}
    ctx.notes['data'] = data          # a panic on this path is reported with the operations performed so far
    req = ['tags', list(lebytes)]
    exp = []
    for i, (nl, cl) in enumerate(zip(name_lens, cont_lens)):
        name = ctx.fresh_bytes('n%d' % i, nl, NAME_ALPHA)
        cont = ctx.fresh_bytes('c%d' % i, cl, CONT_ALPHA)
        d1_ok(ctx, cont)
        data['ops'].append(['c', [b[1] for b in name]])
        r = it.call_mir(f_create, [RefV(cell), StrV(name)])
        req.append('c:'); req.append([b[1] for b in name]); exp.append('ok' if r.idx == 0 else 'err')
        want = spec.create(ctx, name)
        if (r.idx == 0) != want:
            violation(ctx, 'tag create: verdict differs from the tag rules', dict(data, impl=(r.idx == 0), spec=want))
        if not want:
            ctx.cover('create_rejected')
            # a rejected create must leave the store unchanged: continue with the remaining operations
            continue
        data['ops'].append(['s', [b[1] for b in cont]])
        r = it.call_mir(f_store, [RefV(cell), StrV(cont)])
        req.append('s:'); req.append([b[1] for b in cont]); exp.append('ok' if r.idx == 0 else 'err')
        w2 = spec.try_store(ctx, cont)
        if (r.idx == 0) != w2:
            violation(ctx, 'tag try_store: verdict differs', data)
    # a store without a listening tag must be refused
    r = it.call_mir(f_store, [RefV(cell), StrV(tuple(b'zz'))])
    if (r.idx == 0) != spec.try_store(ctx, tuple(b'zz')):
        violation(ctx, 'tag try_store without listening tag', data)
    for li, ll in enumerate(line_lens):
        line = ctx.fresh_bytes('l%d' % li, ll, LINE_ALPHA)
        data['ops'].append(['i', [b[1] for b in line]])
        got = it.call_mir(f_inject, [RefV(cell), StrV(line), StrV(lebytes)])
        req.append('i:'); req.append([b[1] for b in line]); exp.append(list(b if isinstance(b, int) else b[1] for b in got.b))
        want = spec.inject(ctx, line, lebytes)
        if len(spec.stored) < sum(1 for _ in name_lens):
            ctx.cover('substituted')
        check_bytes_equal(ctx, got.b, want, 'inject_tags: output differs from the tag rules (line %d)' % li, data)
        h = it.call_mir(f_has, [RefV(cell)])
        if bool(h) != spec.has_tags():
            violation(ctx, 'has_tags differs after inject (a used tag must be gone, an unused one must remain)', data)
    ctx.notes['ops'] = len(data['ops'])
    ctx.notes['native_check'] = {'kind': 'line', 'request': req, 'expect': exp}


def h_rle(m, ctx, n, le, force):
    """replace_line_ending == line-break rewriting"""
    it = Interp(m, ctx)
    fn = m.find_method('str', 'replace_line_ending', 'ReplaceLineEnding')
    s = ctx.fresh_bytes('s', n, CONT_ALPHA)
    d1_ok(ctx, s)
    got = it.call_mir(fn, [StrV(s), StrV(tuple(le)), force])
    want = list(normalize_le(ctx, s, tuple(le)))
    if force:
        from spec.prims import split_lines
        _, ends = split_lines(ctx, s)
        if not ends:
            want.extend(le)
    check_bytes_equal(ctx, got.b, tuple(want), 'replace_line_ending', {'op': 'rle', 's': [b[1] for b in s], 'le': list(le), 'force': force})
    for i, b in enumerate(got.b):
        pass


H = 'props.c14'


def validate_samples(native, samples):
    return validate_tag_samples(native, samples)


def jobs(tier):
    js = []
    import itertools
    quick = tier == 'quick'
    les = [b'\n', b'\r\n']
    # one tag: all name lengths, content 0..3, line 0..5
    for nl in (1, 2):
        for cl in (range(0, 3) if quick else range(0, 4)):
            for ll in (range(0, 5) if quick else range(0, 7)):
                for le in les:
                    js.append({'name': 'tags1 n=%d c=%d l=%d le=%r' % (nl, cl, ll, le), 'harness': (H, 'h_tags'),
                               'params': {'name_lens': [nl], 'cont_lens': [cl], 'line_lens': [ll], 'le': le}})
    # two tags, both orders of iteration, second line re-injection (used tags must be gone)
    for nls in itertools.product((1, 2), repeat=2):
        for cls in ([(1, 1), (0, 2), (2, 1)] if quick else [(1, 1), (0, 2), (2, 1), (2, 2), (3, 1)]):
            for lls in ([(3,), (4,), (3, 2)] if quick else [(3,), (4,), (5,), (6,), (3, 2), (4, 3)]):
                js.append({'name': 'tags2 n=%s c=%s l=%s' % (nls, cls, lls), 'harness': (H, 'h_tags'),
                           'params': {'name_lens': list(nls), 'cont_lens': list(cls), 'line_lens': list(lls), 'le': b'\n'},
                           'split': 1 if quick else 8})
    # three tags
    for nls in ([(1, 2, 2), (2, 2, 2), (2, 1, 2)] if quick else list(itertools.product((1, 2), repeat=3))):
        for lls in ([(4,)] if quick else [(4,), (5,), (6,), (4, 2)]):
            js.append({'name': 'tags3 n=%s l=%s' % (nls, lls), 'harness': (H, 'h_tags'),
                       'params': {'name_lens': list(nls), 'cont_lens': [1, 1, 1], 'line_lens': list(lls), 'le': b'\r\n'},
                       'split': 8})
    # whole files (real preprocess): which directive's output a listening tag captures -- the next one that PRODUCES output, be
    # it empty (a command that prints nothing, an empty included file); directives without output are skipped
    for second in ('run', 'include f', 'write', 'empty', 'temp', 'after f'):
        js.append({'name': 'file: tag A / %s / text using A' % second, 'harness': ('props.c01', 'h_conform'),
                   'params': {'nlines': 3, 'menu_name': 'small', 'fixed': ['tag A', second, 'tagtext'], 'le_choices': (b'\n',), 'inc_len': 1,
                              'out_len': 1, 'final_newline': True}})
    for second in ('empty', 'after f', 'temp'):
        for third in ('run', 'include f'):
            js.append({'name': 'file: tag A / %s / %s / text using A' % (second, third), 'harness': ('props.c01', 'h_conform'),
                       'params': {'nlines': 4, 'menu_name': 'small', 'fixed': ['tag A', second, third, 'tagtext'], 'le_choices': (b'\n',),
                                  'inc_len': 1, 'out_len': 1, 'final_newline': True}})
    js.append({'name': 'file: tag A / run / tag AB / ...', 'harness': ('props.c01', 'h_conform'),
               'params': {'nlines': 4, 'menu_name': 'small', 'fixed': ['tag A', 'run', 'tag AB'], 'le_choices': (b'\n',), 'inc_len': 1, 'out_len': 1,
                          'final_newline': True}, 'split': 4})
    # reaching end of file with a tag unused is an error in every mode that processes the file, also when only verifying
    for sc, pl in ((['tag A'], 0), (['tag A'], 1), (['tag A', 'write'], 0), (['text', 'tag A'], 3), (['tag A', 'write', 'text'], 3)):
        js.append({'name': 'verify: unused tag at end of file %s pre_out=%d' % ('/'.join(sc), pl), 'harness': ('props.fsprops', 'h_verify'),
                   'params': {'nlines': len(sc), 'menu_name': 'small', 'fixed': sc, 'pre_out_len': pl}})
    from . import project
    js += project.jobs('C14', tier)
    for n in (range(0, 5) if quick else range(0, 7)):
        for le in les:
            for force in (False, True):
                js.append({'name': 'rle n=%d le=%r force=%s' % (n, le, force), 'harness': (H, 'h_rle'),
                           'params': {'n': n, 'le': le, 'force': force}})
    return js


BOUNDS = {
    'quick': '1-3 tags, names 1-2 bytes over {A,B}, contents 0-2 bytes over {A,B,LF,CR}, target lines 0-4 bytes over {A,B,x}, '
             'second injection line, every HashMap iteration order; replace_line_ending on 0-4 bytes; whole files tag / directive / text over '
             'the small line menu (command stdout and included file of 0-1 symbolic bytes: empty outputs included)',
    'thorough': '1-3 tags, names 1-2 bytes, contents 0-3 bytes, lines 0-6 bytes, every iteration order; replace_line_ending 0-6 bytes',
}
ASSUMPTIONS = ['D1: CR occurs only immediately before LF in stored contents', 'D6: tag names are non-empty',
               'HashMap/HashSet are modelled as association lists whose iteration order is a fork point (all permutations)']
COVERS_REQUIRED = ['create_rejected', 'substituted']


def replay(native, v):
    d = v['data']
    model = d['model']
    cc = ConcreteCtx()
    if d['op'] == 'pp':
        from . import c01
        return c01.replay(native, v)
    if d['op'] == 'fs':
        from . import c06
        return c06.replay(native, v)
    if d['op'] == 'rle':
        s = bytes(model[x] for x in d['s'])
        out = native.ask('replace_line_ending %s %s %d' % (hexs(s), hexs(bytes(d['le'])), 1 if d['force'] else 0))
        want = list(normalize_le(cc, tuple(s), tuple(d['le'])))
        from spec.prims import split_lines
        if d['force'] and not split_lines(cc, tuple(s))[1]:
            want.extend(d['le'])
        return out != hexs(bytes(want)), {'s': repr(s), 'native': out, 'spec': hexs(bytes(want))}
    le = bytes(d['le'])
    spec = TagSpec()
    req = ['tags', hexs(le)]
    exp = []
    pending_create_ok = None
    for kind, syms in d['ops']:
        val = bytes(model[x] for x in syms)
        if kind == 'c':
            req.append('c:' + val.hex())
            exp.append('ok' if spec.create(cc, tuple(val)) else 'err')
        elif kind == 's':
            req.append('s:' + val.hex())
            exp.append('ok' if spec.try_store(cc, tuple(val)) else 'err')
        elif kind == 'i':
            req.append('i:' + val.hex())
            exp.append(hexs(bytes(spec.inject(cc, tuple(val), tuple(le)))))
            req.append('h:')
            exp.append('true' if spec.has_tags() else 'false')
    out = native.ask(' '.join(req))
    return out != ' '.join(exp), {'request': ' '.join(req), 'native': out, 'spec': ' '.join(exp)}


def validate_tag_samples(native, samples):
    """replay sampled tag paths through the native TagState (the tags protocol glues op prefixes to hex payloads)"""
    from .common import _lookup
    ok_n, bad = 0, []
    for smp in samples:
        nc = (smp.get('notes') or {}).get('native_check')
        if not nc:
            continue
        try:
            def conc(t):
                return bytes(x if isinstance(x, int) else _lookup(smp['model'], x) for x in t)
            req = nc['request']
            parts = ['tags', hexs(conc(req[1]))]
            i = 2
            while i < len(req):
                parts.append(req[i] + conc(req[i + 1]).hex())
                i += 2
            exp = ' '.join(e if isinstance(e, str) else hexs(conc(e)) for e in nc['expect'])
            got = native.ask(' '.join(parts))
            # the native protocol prints has_tags only when asked; compare the common prefix of results
            if got == exp:
                ok_n += 1
            else:
                bad.append('%s -> native %s, interpreter %s' % (' '.join(parts), got, exp))
        except KeyError:
            continue
    return ok_n, bad
