"""C02 Includes always see the complete, fresh output of their dependencies.

Real coordinator (Txtpp::run .. DepManager) from MIR under the scheduler model: for every acyclic dependency graph within
the bound, every choice of requested inputs and every order in which in-flight tasks can complete, a file is processed to
completion only after all its dependencies are complete, and on success every required file is final exactly once.
Byte-equality with the one-at-a-time build then follows from C01 (per-file outputs are a function of the source and of the
final dependency outputs).  The abstraction of `preprocess` is justified by the lemma harness fsprops.h_deps, run here for
Build / InMemoryBuild: first pass reports exactly the .txtpp-backed include/after targets (three name shapes, nested dir),
runs nothing after the first of them, and the final pass never reports dependencies.
"""
from . import sched
from .fsprops import h_deps, DEP_SHAPES, replay_deps

H2 = 'props.fsprops'


def jobs(tier):
    js = sched.jobs_c02(tier)
    for shape in range(len(DEP_SHAPES)):
        for kind in ('include', 'after'):
            for before in ('text', 'run'):
                for after in ('run', 'include2', 'after2'):
                    if tier == 'quick' and (before, after) not in (('text', 'run'), ('run', 'include2'), ('text', 'after2')):
                        continue
                    js.append({'name': 'lemma first-pass deps shape=%d %s before=%s after=%s' % (shape, kind, before, after),
                               'harness': (H2, 'h_deps'), 'params': {'mode': 'Build', 'shape': shape, 'kind': kind, 'before': before, 'after': after}})
    # lemma "a completed dependency's output on disk is its fresh output, whatever was lying there": Build and --needed from a
    # symbolic pre-existing output (longer, shorter, equal prefix ...) leave the bytes a build from a clean tree leaves
    for sc in (['text'], ['include f'], ['text', 'text'], ['temp'], ['include f', 'empty'], ['empty']):
        for pl in ((0, 3, 4, 5) if tier == 'quick' else (0, 1, 2, 3, 4, 5, 6, 7)):
            for md in ('Build', 'InMemoryBuild'):
                js.append({'name': 'lemma fresh output over an old one: %s pre_out=%d %s' % (md, pl, '/'.join(sc)), 'harness': (H2, 'h_hermetic'),
                           'params': {'nlines': len(sc), 'menu_name': 'small', 'fixed': sc, 'pre_out_len': pl, 'pre_temp_len': None,
                                      'mode_a': md, 'mode_b': 'Build', 'inc_len': 1}})
    from . import project
    js += project.jobs('C02', tier)
    return js


BOUNDS = {'quick': 'all DAGs on <=3 files (edges to higher indices = every DAG up to relabelling), requested inputs: every non-empty subset for '
                   'n<=2, 5 selections for n=3 incl. duplicates / output-name / directory inputs; every completion order of in-flight tasks; '
                   'modes Build, InMemoryBuild, Verify; lemma: 4 dependency name shapes x include/after',
          'thorough': 'DAGs on 4 files with out-degree <=2, every input subset for n<=3'}
from . import project as _project
BOUNDS = {k: v + _project.bounds_note('C02', k) for k, v in BOUNDS.items()}
ASSUMPTIONS = ['worker bodies are atomic with respect to the coordinator (they communicate only through the channel); interference of two '
               'workers through the file system and true simultaneity are outside the claim',
               'thread count only matters through the pool contract: every completion order is possible with enough threads',
               '`preprocess` is abstracted per the lemma (also decided on the real code)']
COVERS_REQUIRED = ['acyclic', 'deps_reported_Build', 'final_pass_Build']


def replay(native, v):
    if v['data'].get('op') == 'deps':
        return replay_deps(v)
    if v['data'].get('op') == 'fs':
        from . import c08
        return c08.replay(native, v)
    return sched.replay(native, v)
