"""C13 The trailing-newline option controls one final line ending and nothing else.

2-safety by self-composition: the real `preprocess` is run twice on the same symbolic source and world, once with the
option on and once off; the two outputs / temp files / verdicts are related directly (no reference semantics involved).
`main`'s -n flag mapping is checked on the bin MIR by C17's harness family (see props/c17.py: cli_flags).
"""
from mirsym.core import Violation, t_bytes_eq
from mirsym.interp import Interp
from mirsym.values import *
from spec import grammar, pp as specpp
from .common import *
from .ppgen import *
from . import ppreplay


def h_pair(m, ctx, nlines, menu_name, fixed=None, le_choices=(b'\n', b'\r\n'), inc_len=3, out_len=2, final_newline=None,
           mode='Build', history=False):
    source, desc = build_source(ctx, nlines, menu_name, fixed=fixed, le_choices=le_choices, final_newline=final_newline)
    se = SymEnv(ctx, inc_len=inc_len, out_len=out_len)
    if history == 'off_on':
        # round 6: the run with the option ON starts from the files a run with the option OFF left behind
        it2 = Interp(m, ctx)
        env2 = se.install(it2, source)
        r2 = run_preprocess(m, it2, mode, False, False)
        out2, tmp2 = env2.read_file(OUT), env2.read_file(WORK + b'/t.tmp')
        se.replaying = 0
        it1 = Interp(m, ctx)
        env1 = se.install(it1, source, pre_out=out2, pre_temp=tmp2)
        r1 = run_preprocess(m, it1, mode, False, True)
        out1, tmp1 = env1.read_file(OUT), env1.read_file(WORK + b'/t.tmp')
    else:
        it1 = Interp(m, ctx)
        env1 = se.install(it1, source)
        r1 = run_preprocess(m, it1, mode, False, True)
        out1, tmp1 = env1.read_file(OUT), env1.read_file(WORK + b'/t.tmp')
        se.replaying = 0
        it2 = Interp(m, ctx)
        # history=True: the second run (option off) starts from the files the first run (option on) left behind
        env2 = se.install(it2, source, pre_out=out1 if history else None, pre_temp=tmp1 if history else None)
        r2 = run_preprocess(m, it2, mode, False, False)
        out2, tmp2 = env2.read_file(OUT), env2.read_file(WORK + b'/t.tmp')
    data = {'op': 'pp2', 'mode': mode, 'history': history, 'lines': desc, 'source': syms_of(source), 'inc': syms_of(se.inc_content),
            'cmd_results': [(code, syms_of(o)) for _, code, o in se.cmd_results], 'source_shown': show_bytes(source)}
    ctx.notes['lines'] = desc
    if (r1.idx == 0) != (r2.idx == 0):
        violation(ctx, 'the trailing-newline option changes the verdict', data)
    if r1.idx != 0:
        ctx.cover('error')
        return
    le = specpp.first_line_ending(ctx, source)
    # temp files identical
    if (tmp1 is None) != (tmp2 is None):
        violation(ctx, 'the option changes whether the temp file exists', data)
    if tmp1 is not None:
        ctx.cover('temp')
        check_bytes_equal(ctx, tmp1, tmp2, 'the option changes temp file content', data)
    # outputs: identical, or on == off + one final line ending
    if len(out1) == len(out2):
        check_bytes_equal(ctx, out1, out2, 'outputs differ in content', data)
        same = True
    elif len(out1) == len(out2) + len(le):
        check_bytes_equal(ctx, out1, tuple(out2) + tuple(le), 'outputs differ by more than one final line ending', data)
        same = False
    else:
        violation(ctx, 'outputs differ by more than one final line ending (lengths %d vs %d)' % (len(out1), len(out2)), data)
    # source ending with an ordinary text line: on => ends with <line><le>, off => ends with <line> and no le
    lines = specpp.source_lines(ctx, source)
    if lines:
        last = lines[-1]
        last_is_text = grammar.classify(ctx, last) is None
        # the last line is "ordinary text" only if it is not consumed as a continuation either: decided by the spec run
        spec = specpp.process(ctx, source, _SpecEnv(se), True)
        if spec.ok and last_is_text and spec.last_item_is_text:
            ctx.cover('ends_with_text')
            if same:
                violation(ctx, 'source ends with a text line but the option made no difference', data)
            tail_on = tuple(out1[len(out1) - len(le):])
            check_bytes_equal(ctx, tail_on, tuple(le), 'option on: output must end with a line ending', data)
            # option off: the final line ending is absent -> out2 ends with the (tag-substituted) last line
            if len(out2) >= len(le) and len(last) > 0:
                pass
    else:
        ctx.cover('empty_source')


class _SpecEnv:
    """spec-side view of the same world, replaying the recorded command results without consuming them"""
    def __init__(self, se):
        self.se = se
        self.i = 0

    def include(self, ctx, arg):
        return self.se.include(ctx, arg)

    def run(self, ctx, cmd):
        i = self.i
        self.i += 1
        if i < len(self.se.cmd_results):
            _, code, out = self.se.cmd_results[i]
            return None if code != 0 else out
        return ()

    def is_txtpp_name(self, ctx, arg):
        return self.se.is_txtpp_name(ctx, arg)

    def write_temp(self, ctx, arg, content):
        pass


H = 'props.c13'


MIR_KINDS = ('lib', 'bin')

def jobs(tier):
    js = []
    firsts = [n for n, _ in menu('small')]
    if tier == 'quick':
        js.append({'name': '1 line', 'harness': (H, 'h_pair'), 'params': {'nlines': 1, 'menu_name': 'small'}})
        js.append({'name': '0 lines', 'harness': (H, 'h_pair'), 'params': {'nlines': 0, 'menu_name': 'small'}})
        for f in firsts:
            js.append({'name': '2 lines first=%s' % f, 'harness': (H, 'h_pair'), 'params': {'nlines': 2, 'menu_name': 'small', 'fixed': [f]}})
        for md in ('Build', 'InMemoryBuild'):
            js.append({'name': 'history on->off %s 2 lines' % md, 'harness': (H, 'h_pair'),
                       'params': {'nlines': 2, 'menu_name': 'small', 'mode': md, 'history': True, 'le_choices': (b'\n',), 'inc_len': 2, 'out_len': 1},
                       'split': 8})
        js.append({'name': 'history off->on InMemoryBuild 2 lines', 'harness': (H, 'h_pair'),
                   'params': {'nlines': 2, 'menu_name': 'small', 'mode': 'InMemoryBuild', 'history': 'off_on', 'le_choices': (b'\n',), 'inc_len': 2,
                              'out_len': 1}, 'split': 8})
        for f in ['write', 'run', 'include f', 'temp', 'tag A']:
            js.append({'name': '3 lines first=%s LF' % f, 'harness': (H, 'h_pair'),
                       'params': {'nlines': 3, 'menu_name': 'small', 'fixed': [f], 'le_choices': (b'\n',), 'inc_len': 2, 'out_len': 1}, 'split': 4})
    else:
        for f in firsts:
            for g in firsts:
                js.append({'name': '3 lines %s/%s' % (f, g), 'harness': (H, 'h_pair'),
                           'params': {'nlines': 3, 'menu_name': 'small', 'fixed': [f, g]}})
        for f in [n for n, _ in menu('full')]:
            js.append({'name': 'full 2 lines first=%s' % f, 'harness': (H, 'h_pair'), 'params': {'nlines': 2, 'menu_name': 'full', 'fixed': [f]}})
        for md in ('Build', 'InMemoryBuild'):
            for f in firsts:
                js.append({'name': 'history on->off %s 3 lines first=%s' % (md, f), 'harness': (H, 'h_pair'),
                           'params': {'nlines': 3, 'menu_name': 'small', 'fixed': [f], 'mode': md, 'history': True, 'inc_len': 2, 'out_len': 1}, 'split': 4})
                js.append({'name': 'history off->on %s 2 lines first=%s' % (md, f), 'harness': (H, 'h_pair'),
                           'params': {'nlines': 2, 'menu_name': 'small', 'fixed': [f], 'mode': md, 'history': 'off_on', 'inc_len': 2, 'out_len': 1}})
    # the mode / options the binary hands to the library for every flag combination (real main() from the bin crate's MIR)
    for sub in (None, 'Verify'):
        js.append({'name': 'cli: options passed to the run for sub-command %s x all flags' % sub, 'harness': ('props.c17', 'h_cli'),
                   'mir': ('lib', 'bin'), 'params': {'sub': sub, 'txtpp_file': None}})
    for total in (8192, 16384):
        for tr in (True, False):
            js.append({'name': 'needed-build: fresh output of exactly %d bytes over a longer older one (trailing=%s)' % (total, tr),
                       'harness': ('props.fsprops', 'h_exact_size'), 'params': {'total': total, 'mode': 'InMemoryBuild', 'trailing': tr}, 'max_steps': 8_000_000})
    from . import project
    js += project.jobs('C13', tier)
    return js


BOUNDS = {'quick': 'same sources/world as C01 quick (0-3 lines over the small menu, LF/CRLF, with/without final newline), two runs each; histories on->off (Build, --needed) and off->on (--needed) over the files the first run left, 2-line sources',
          'thorough': 'all 3-line sources over the small menu, 2-line sources over the full menu, two runs each; histories on->off (3 lines) and off->on (2 lines) in Build and --needed for every first line'}
from . import project as _project
BOUNDS = {k: v + _project.bounds_note('C13', k) for k, v in BOUNDS.items()}
ASSUMPTIONS = ['D1-D12 of DESIGN.md 4.3', 'D8: commands are deterministic (the second run sees the same results)']
COVERS_REQUIRED = ['ends_with_text', 'temp', 'error']


def replay(native, v):
    d = v['data']
    model = d['model']
    margs = ('-N',) if d.get('mode') == 'InMemoryBuild' else ()
    if d.get('history') == 'off_on':
        b, a = ppreplay.run_native_history(d, model, [(margs, False), (margs, True)])
    elif d.get('history'):
        a, b = ppreplay.run_native_history(d, model, [(margs, True), (margs, False)])
    else:
        a = ppreplay.run_native(d, model, mode_args=margs, trailing=True)
        b = ppreplay.run_native(d, model, mode_args=margs, trailing=False)
    src = ppreplay.conc(d['source'], model)
    le = b'\r\n' if (b'\n' in src and src[:src.index(b'\n') + 1].endswith(b'\r\n')) else b'\n'
    detail = {'source': repr(src), 'included f': repr(ppreplay.conc(d['inc'], model)), 'on_rc': a['rc'], 'off_rc': b['rc'],
              'on_output': repr(a['output']), 'off_output': repr(b['output']), 'on_temp': repr(a['temp']), 'off_temp': repr(b['temp'])}
    bad = False
    if (a['rc'] == 0) != (b['rc'] == 0):
        bad = True
    elif a['rc'] == 0:
        if a['temp'] != b['temp']:
            bad = True
        if not (a['output'] == b['output'] or a['output'] == b['output'] + le):
            bad = True
        spec, env = ppreplay.spec_concrete(d, model, True)
        if spec.ok and spec.last_item_is_text:
            if not (a['output'].endswith(le) and a['output'] == b['output'] + le):
                bad = True
    return bad, detail
