"""Native replay of whole-file counterexamples: materialise the project, run the real txtpp binary, compare with
the concrete reference semantics."""
import os
import shutil
import stat
import subprocess
import tempfile

from lib import build
from spec import pp as specpp
from spec import names as specnames
from .common import ConcreteCtx


def cli_path():
    return build.build_native(build.copy_repo())['txtpp']


class ConcreteEnvSpec:
    def __init__(self, inc, cmd_results):
        self.inc = inc
        self.cmd_results = list(cmd_results)
        self.i = 0
        self.temps = {}
        self.cmds = []

    def include(self, ctx, arg):
        if bytes(arg) == b'f':
            return tuple(self.inc)
        if bytes(arg) == b't.tmp':
            if b't.tmp' in self.temps:
                return tuple(self.temps[b't.tmp'])
            return tuple(self.pre_temp) if getattr(self, 'pre_temp', None) is not None else None
        return None

    def run(self, ctx, cmd):
        self.cmds.append(bytes(cmd))
        if self.i >= len(self.cmd_results):
            # the implementation ran fewer commands than the spec: treat further commands as succeeding with no output
            self.i += 1
            return ()
        code, out = self.cmd_results[self.i]
        self.i += 1
        return None if code != 0 else tuple(out)

    def is_txtpp_name(self, ctx, arg):
        return specnames.is_txtpp_name(ctx, tuple(arg))

    def write_temp(self, ctx, arg, content):
        self.temps[bytes(arg)] = bytes(content)


def conc(syms, model):
    return bytes(x if isinstance(x, int) else model[x] for x in syms)


def materialise(d, model):
    """-> (root dir, work dir)"""
    root = tempfile.mkdtemp(prefix='replay-', dir=build.scratch_dir())
    work = os.path.join(root, 'w', 'd')
    os.makedirs(work)
    open(os.path.join(work, 'a.txt.txtpp'), 'wb').write(conc(d['source'], model))
    open(os.path.join(work, 'f'), 'wb').write(conc(d['inc'], model))
    if d.get('pre_out') is not None:
        open(os.path.join(work, 'a.txt'), 'wb').write(conc(d['pre_out'], model))
    if d.get('pre_temp') == 'DIR':
        os.makedirs(os.path.join(work, 't.tmp'))
        open(os.path.join(work, 't.tmp', 'keep'), 'wb').write(b'keep')
    elif d.get('pre_temp') is not None:
        open(os.path.join(work, 't.tmp'), 'wb').write(conc(d['pre_temp'], model))
    for name, syms in d.get('extra_files', []):
        p = os.path.join(root, name.lstrip('/'))
        os.makedirs(os.path.dirname(p), exist_ok=True)
        open(p, 'wb').write(conc(syms, model))
    # commands c1 / c2: print the i-th recorded stdout, exit with the i-th recorded status
    bind = os.path.join(root, 'bin')
    os.makedirs(bind)
    res = [(code, conc(out, model)) for code, out in d.get('cmd_results', [])]
    for i, (code, out) in enumerate(res):
        open(os.path.join(bind, 'out%d' % i), 'wb').write(out)
        open(os.path.join(bind, 'code%d' % i), 'w').write(str(code))
    for i, nb in enumerate(d.get('stderr_results', [])):
        open(os.path.join(bind, 'err%d' % i), 'wb').write(b'e' * nb)
    script = '#!/bin/sh\nD=%s\nN=$(cat $D/counter 2>/dev/null || echo 0)\necho $((N+1)) > $D/counter\necho "$0 $@" >> $D/calls\n' \
             '[ -f $D/out$N ] && cat $D/out$N\n[ -f $D/err$N ] && cat $D/err$N >&2\n[ -f $D/code$N ] && [ "$(cat $D/code$N)" = None ] && kill -9 $$\n' \
             '[ -f $D/code$N ] && exit $(cat $D/code$N)\nexit 0\n' % bind
    for c in ('c1', 'c2'):
        p = os.path.join(bind, c)
        open(p, 'w').write(script)
        os.chmod(p, 0o755)
    rec = os.path.join(bind, 'recsh')
    # the recording shell passes the death of the command by a signal on as its own death by a signal (exit status None)
    open(rec, 'w').write('#!/bin/sh\nprintf \'%%s\\0\' "$2" >> %s/cmds\n/bin/sh -c "$2"\nrc=$?\n[ $rc -gt 128 ] && kill -9 $$\nexit $rc\n' % bind)
    os.chmod(rec, 0o755)
    return root, work, bind, res


def run_native(d, model, mode_args=(), trailing=True, cleanup=True, threads=1):
    root, work, bind, res = materialise(d, model)
    cli = cli_path()
    e = dict(os.environ)
    e['PATH'] = bind + ':' + e.get('PATH', '')
    e.pop('TXTPP_FILE', None)
    args = [cli] + list(mode_args) + ['-q', '-j', str(threads)]
    if 'clean' not in mode_args:
        args += ['-s', os.path.join(bind, 'recsh') + ' -c']
        if not trailing:
            args.append('-n')
    args.append('a.txt.txtpp')
    r = subprocess.run(args, cwd=work, env=e, stdout=subprocess.PIPE, stderr=subprocess.PIPE, timeout=60)
    out = None
    p = os.path.join(work, 'a.txt')
    if os.path.exists(p):
        out = open(p, 'rb').read()
    tmp = None
    p = os.path.join(work, 't.tmp')
    if os.path.isfile(p):
        tmp = open(p, 'rb').read()
    listing = sorted(os.listdir(work))
    cmds = []
    if os.path.exists(os.path.join(bind, 'cmds')):
        cmds = open(os.path.join(bind, 'cmds'), 'rb').read().split(b'\0')[:-1]
    if cleanup:
        shutil.rmtree(root, ignore_errors=True)
    return {'rc': r.returncode, 'output': out, 'temp': tmp, 'stderr': r.stderr.decode('utf8', 'replace')[-400:], 'listing': listing,
            'root': root, 'cmds': cmds}


def run_native_fault(d, model, op, path_suffix, nth, mode_args=(), trailing=True):
    """run_native with one injected I/O failure (LD_PRELOAD shim): the nth `op` on the file whose path ends with path_suffix.
    -> result dict with 'injected' (bool), or None when the shim cannot be built"""
    so = build.faultinj_so()
    if so is None:
        return None
    root, work, bind, res = materialise(d, model)
    cli = cli_path()
    e = dict(os.environ)
    e['PATH'] = bind + ':' + e.get('PATH', '')
    e.pop('TXTPP_FILE', None)
    log = os.path.join(root, 'faultinj.log')
    e.update({'LD_PRELOAD': so, 'FAULTINJ_PATH': path_suffix, 'FAULTINJ_OP': op, 'FAULTINJ_NTH': str(nth), 'FAULTINJ_LOG': log})
    args = [cli] + list(mode_args) + ['-q', '-j', '1']
    if 'clean' not in mode_args:
        args += ['-s', os.path.join(bind, 'recsh') + ' -c']
        if not trailing:
            args.append('-n')
    args.append('a.txt.txtpp')
    r = subprocess.run(args, cwd=work, env=e, stdout=subprocess.PIPE, stderr=subprocess.PIPE, timeout=60)
    out = tmp = None
    if os.path.exists(os.path.join(work, 'a.txt')):
        out = open(os.path.join(work, 'a.txt'), 'rb').read()
    if os.path.isfile(os.path.join(work, 't.tmp')):
        tmp = open(os.path.join(work, 't.tmp'), 'rb').read()
    injected = os.path.exists(log)
    shutil.rmtree(root, ignore_errors=True)
    return {'rc': r.returncode, 'output': out, 'temp': tmp, 'injected': injected, 'stderr': r.stderr.decode('utf8', 'replace')[:300]}


def spec_concrete(d, model, trailing=True):
    cc = ConcreteCtx()
    res = [(code, conc(out, model)) for code, out in d.get('cmd_results', [])]
    env = ConcreteEnvSpec(conc(d['inc'], model), res)
    if d.get('pre_temp') not in (None, 'DIR'):
        env.pre_temp = conc(d['pre_temp'], model)
    r = specpp.process(cc, tuple(conc(d['source'], model)), env, trailing)
    return r, env


def run_native_history(d, model, steps, threads=1):
    """several runs in the same directory: steps = [(mode_args, trailing), ...] -> list of per-step results"""
    root, work, bind, res = materialise(d, model)
    cli = cli_path()
    e = dict(os.environ)
    e['PATH'] = bind + ':' + e.get('PATH', '')
    e.pop('TXTPP_FILE', None)
    out = []
    for mode_args, trailing in steps:
        # commands are deterministic (D8): every run sees the same results in the same order
        try:
            os.remove(os.path.join(bind, 'counter'))
        except OSError:
            pass
        args = [cli] + list(mode_args) + ['-q', '-j', str(threads)]
        if 'clean' not in mode_args:
            args += ['-s', os.path.join(bind, 'recsh') + ' -c']
            if not trailing:
                args.append('-n')
        args.append('a.txt.txtpp')
        r = subprocess.run(args, cwd=work, env=e, stdout=subprocess.PIPE, stderr=subprocess.PIPE, timeout=60)
        o = t = None
        if os.path.exists(os.path.join(work, 'a.txt')):
            o = open(os.path.join(work, 'a.txt'), 'rb').read()
        if os.path.isfile(os.path.join(work, 't.tmp')):
            t = open(os.path.join(work, 't.tmp'), 'rb').read()
        out.append({'rc': r.returncode, 'output': o, 'temp': t, 'stderr': r.stderr.decode('utf8', 'replace')[-300:],
                    'listing': sorted(os.listdir(work))})
    shutil.rmtree(root, ignore_errors=True)
    return out


def run_native_inodes(d, model, mode_args):
    """which pre-existing generated files were rewritten (mtime pre-set to a sentinel / inode compared)"""
    root, work, bind, res = materialise(d, model)
    cli = cli_path()
    e = dict(os.environ)
    e['PATH'] = bind + ':' + e.get('PATH', '')
    e.pop('TXTPP_FILE', None)
    before = {}
    for f in ('a.txt', 't.tmp'):
        p = os.path.join(work, f)
        if os.path.exists(p):
            os.utime(p, (1000000000, 1000000000))
            st = os.stat(p)
            before[f] = (st.st_ino, st.st_mtime_ns)
    args = [cli] + list(mode_args) + ['-q', '-j', '1', '-s', os.path.join(bind, 'recsh') + ' -c', 'a.txt.txtpp']
    subprocess.run(args, cwd=work, env=e, stdout=subprocess.PIPE, stderr=subprocess.PIPE, timeout=60)
    out = {}
    for f, (ino, mt) in before.items():
        p = os.path.join(work, f)
        if os.path.exists(p):
            st = os.stat(p)
            out[f] = (st.st_ino, st.st_mtime_ns) != (ino, mt)
        else:
            out[f] = True
    shutil.rmtree(root, ignore_errors=True)
    return out


def validate_pp_samples(native, samples, limit=6):
    """replay sampled whole-file paths with the real binary and compare with what mirsym computed on that path"""
    from .common import _lookup
    ok_n, bad = 0, []
    for smp in samples:
        nc = (smp.get('notes') or {}).get('native_check')
        if not nc or nc.get('kind') != 'pp':
            continue
        if ok_n + len(bad) >= limit:
            break
        d = nc['data']
        try:
            names = set()
            for key in ('source', 'inc', 'pre_temp', 'pre_out'):
                if isinstance(d.get(key), (list, tuple)):
                    names |= {x for x in d[key] if not isinstance(x, int)}
            for _, o in d.get('cmd_results', []):
                names |= {x for x in o if not isinstance(x, int)}
            names |= {x for x in (nc.get('out') or []) if not isinstance(x, int)}
            model = {nm: _lookup(smp['model'], nm) for nm in names}
        except (KeyError, IndexError):
            continue
        nat = run_native(d, model, trailing=d.get('trailing', True))
        want_ok = nc['ok']
        got_ok = nat['rc'] == 0
        if got_ok != want_ok:
            bad.append('verdict: native rc=%s, interpreter %s on %r' % (nat['rc'], want_ok, conc(d['source'], model)))
            continue
        if want_ok and nc.get('out') is not None and nat['output'] != conc(nc['out'], model):
            bad.append('output: native %r, interpreter %r on %r' % (nat['output'], conc(nc['out'], model), conc(d['source'], model)))
            continue
        ok_n += 1
    return ok_n, bad
