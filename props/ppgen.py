"""Symbolic source files + environment for whole-file harnesses (real `preprocess` from MIR vs spec/pp.py).

A source is a sequence of lines, each drawn (fork) from a *menu* of line templates whose variable parts are
symbolic bytes; terminators (LF / CRLF per line, final newline or not) are fork points too.  The file
system, the included files, the command results and the pre-existing generated files are symbolic.
"""
from mirsym.core import t_eq, t_in, t_not, t_or, t_and
from mirsym.interp import Interp
from mirsym.models_env import Env, comps_to_bytes
from mirsym.values import *
from spec import pp as specpp
from spec import names as specnames
from .common import *

SRC = b'/w/d/a.txt.txtpp'
OUT = b'/w/d/a.txt'
WORK = b'/w/d'
INC_ALPHA = [111, 10, 13]            # o \n \r
OUT_ALPHA = [111, 10]                # o \n


def L(*parts):
    return parts


# ---- line menus.  A template is a tuple of parts: bytes (concrete) | ('sym', domain) | ('ws',) ...
TEXT = [
    (b't', ('sym', ASCII_LINE)),
    (b'',),
    (('sym', [65, 66, 120]), ('sym', [65, 66, 120])),             # may contain tag names A / B / AB
]


def directive_templates(prefixes=(b'', b'-', b'// '), wss=(b'', b'  ')):
    out = []
    for ws in wss:
        for p in prefixes:
            head = ws + p + b'TXTPP#'
            out.append(('include f', (head + b'include f',)))
            out.append(('include g(missing)', (head + b'include g',)))
            out.append(('run', (head + b'run c', ('sym', [49, 50]))))
            out.append(('write', (head + b'write w', ('sym', ASCII_LINE))))
            out.append(('write bare', (head + b'write',)))          # the text starts on the next line: the first argument is empty
            out.append(('temp', (head + b'temp t.tmp',)))
            out.append(('temp txtpp', (head + b'temp t.txtpp',)))
            out.append(('temp txtpp.ext', (head + b'temp t.txtpp.md',)))
            out.append(('tag A', (head + b'tag A',)))
            out.append(('tag AB', (head + b'tag AB',)))
            out.append(('after f', (head + b'after f',)))
            out.append(('empty', (head,)))
    return out


def continuation_templates(prefixes=(b'-', b'// '), wss=(b'', b'  ')):
    out = []
    for ws in wss:
        for p in prefixes:
            out.append(('cont prefix', (ws + p, ('sym', ASCII_LINE), ('sym', ASCII_LINE))))
            out.append(('cont spaces', (ws + b' ' * len(p) + b'k', ('sym', [107, 32, 9]))))
            out.append(('cont spaces-only', (ws + b' ' * len(p), ('sym', [107, 32, 9]))))
            out.append(('cont bare', (ws + p.rstrip(),)))
            out.append(('cont looks-like-temp', (ws + p + b'TXTPP#temp t.tmp',)))
            out.append(('cont ws-mismatch', (ws + b' ' + p + b'k',)))
    return out


MENUS = {}


def menu(name):
    if name in MENUS:
        return MENUS[name]
    if name == 'small':
        m = [('text', TEXT[0]), ('blank', TEXT[1]), ('tagtext', TEXT[2])]
        m += directive_templates(prefixes=(b'-',), wss=(b'',))
        m += continuation_templates(prefixes=(b'-',), wss=(b'',))
    elif name == 'indent':
        m = [('text', TEXT[0]), ('tagtext', TEXT[2])]
        m += directive_templates(prefixes=(b'', b'// '), wss=(b'  ',))
        m += continuation_templates(prefixes=(b'// ',), wss=(b'  ',))
    elif name == 'full':
        m = [('text', TEXT[0]), ('blank', TEXT[1]), ('tagtext', TEXT[2])]
        m += directive_templates()
        m += continuation_templates()
    elif name == 'small+':
        # the small menu plus lines that only dedicated scenarios use (kept out of `small` so that its path counts stay put)
        m = list(menu('small'))
        m += [('include t.tmp', (b'#TXTPP#include t.tmp',)),          # another prefix than temp's: not a continuation
              ('temp tab', (b'# TXTPP#temp\tt.tmp',)),              # a TAB after the name: NOT a directive (the grammar wants a space)
              ('run tab', (b'# TXTPP#run\tc1',)),
              ('empty tab', (b'# TXTPP#\tx',)),
              ('cont hash', (b'# k', ('sym', ASCII_LINE))),
              ('temp other', (b'+TXTPP#temp t.tmp',)), ('cont plus', (b'+n', ('sym', ASCII_LINE)))]
    elif name == 'text':
        m = [('text', TEXT[0]), ('blank', TEXT[1]), ('tagtext', TEXT[2])]
    else:
        raise KeyError(name)
    MENUS[name] = m
    return m


def build_line(ctx, tmpl, tag):
    out = []
    k = 0
    for part in tmpl:
        if isinstance(part, bytes):
            out.extend(part)
        elif part[0] == 'sym':
            out.append(ctx.fresh_byte('%s_%d' % (tag, k), part[1]))
            k += 1
    return tuple(out)


def build_source(ctx, nlines, menu_name, mix_le=False, le_choices=(b'\n', b'\r\n'), final_newline=None, fixed=None):
    """-> (content bytes, description)"""
    mn = menu(menu_name)
    desc = []
    content = []
    le_first = None
    for i in range(nlines):
        if fixed is not None and i < len(fixed):
            k = [n for n, _ in mn].index(fixed[i])
        else:
            k = ctx.choose(len(mn), 'line%d' % i)
        name, tmpl = mn[k]
        line = build_line(ctx, tmpl, 'L%d' % i)
        desc.append(name)
        content.extend(line)
        last = (i == nlines - 1)
        if last:
            fin = final_newline if final_newline is not None else (ctx.choose(2, 'finalnl') == 0)
            if not fin:
                break
        if le_first is None or mix_le:
            le = le_choices[ctx.choose(len(le_choices), 'le%d' % i)] if len(le_choices) > 1 else le_choices[0]
            if le_first is None:
                le_first = le
        else:
            le = le_first
        content.extend(le)
    return tuple(content), desc


class SymEnv:
    """shared description of the world for both the implementation run (mirsym Env) and the spec"""

    def __init__(self, ctx, inc_len=3, out_len=2, inc_alpha=INC_ALPHA, out_alpha=OUT_ALPHA, fail_cmds=True):
        self.ctx = ctx
        self.inc_content = ctx.fresh_bytes('inc', inc_len, inc_alpha)
        d1(ctx, self.inc_content)
        self.out_len = out_len
        self.out_alpha = out_alpha
        self.fail_cmds = fail_cmds
        self.cmd_results = []         # (cmd bytes as seen by impl, code, stdout)
        self.spec_cmd_i = 0
        self.spec_temps = {}
        self.replaying = None
        self.second_cmds = []
        self.lenient = False
        self.signals = False

    # ---- implementation side
    def install(self, it, source, pre_out=None, pre_temp=None, extra_files=()):
        env = Env(it, cwd=b'/w')
        it.env = env
        env.add_dir(WORK)
        env.add_file(SRC, source)
        env.add_file(WORK + b'/f', self.inc_content)
        env.add_file(b'/bin/sh', b'')
        for p, c in extra_files:
            env.add_file(p, c)
        if pre_out is not None:
            env.add_file(OUT, pre_out)
        if isinstance(pre_temp, str) and pre_temp == 'DIR':
            env.add_dir(WORK + b'/t.tmp')                 # a directory is sitting at the temp target
            env.add_file(WORK + b'/t.tmp/keep', b'keep')
        elif pre_temp is not None:
            env.add_file(WORK + b'/t.tmp', pre_temp)
        env.proc_handler = self.proc
        self.env = env
        self.pre_temp = pre_temp
        return env

    def proc(self, it, rec):
        ctx = self.ctx
        if self.replaying is not None:
            # second run over the same world (D8: commands are deterministic): same results in the same order
            i = self.replaying
            self.replaying += 1
            self.second_cmds.append(rec)
            if i < len(self.cmd_results):
                _, code, out = self.cmd_results[i]
                return (code, out, ())
            return (0, (), ())
        i = len(self.cmd_results)
        code = 0
        if self.fail_cmds:
            # exit status 0, a non-zero code, or death by a signal (ExitStatus::code() == None, success() == false)
            code = [0, 1, None][ctx.choose(3 if self.signals else 2, 'exit%d' % i)]
        n = self.out_len
        if n > 0:
            n = ctx.choose(self.out_len + 1, 'outlen%d' % i)
        out = ctx.fresh_bytes('cmd%d' % i, n, self.out_alpha)
        if 13 in self.out_alpha:
            d1(ctx, out)
        self.cmd_results.append((rec, code, out))
        return (code, out, ())

    # ---- spec side
    def include(self, ctx, arg):
        if specpp.beq(ctx, tuple(arg), (102,)):      # "f"
            return self.inc_content
        if all(isinstance(b, int) for b in arg) and bytes(arg) == b't.tmp':
            # the temp target itself: what the semantics has written to it so far, else what was lying there
            if b't.tmp' in self.spec_temps:
                return self.spec_temps[b't.tmp']
            return self.pre_temp if isinstance(getattr(self, 'pre_temp', None), tuple) else None
        return None

    def run(self, ctx, cmd):
        i = self.spec_cmd_i
        self.spec_cmd_i += 1
        if i >= len(self.cmd_results):
            if not self.lenient:
                raise SpecMismatch('spec runs a command the implementation did not run')
            # the implementation stopped earlier (e.g. verify mismatch): the hypothetical command result is unconstrained
            code = 1 if (self.fail_cmds and ctx.choose(2, 'sexit%d' % i) == 1) else 0
            n = ctx.choose(self.out_len + 1, 'soutlen%d' % i) if self.out_len > 0 else 0
            out = ctx.fresh_bytes('scmd%d' % i, n, self.out_alpha)
            self.cmd_results.append(({'args': [StrV(tuple(cmd))]}, code, out))
            return None if code != 0 else out
        rec, code, out = self.cmd_results[i]
        got = rec['args'][-1].b if rec['args'] else ()
        if len(got) != len(cmd) or not specpp.beq(ctx, tuple(got), tuple(cmd)):
            raise SpecMismatch('command text differs: impl %s spec %s' % (show_bytes(got), show_bytes(cmd)))
        return None if code != 0 else out

    def is_txtpp_name(self, ctx, arg):
        return specnames.is_txtpp_name(ctx, tuple(arg))

    def write_temp(self, ctx, arg, content):
        self.spec_temps[bytes(arg) if all(isinstance(b, int) for b in arg) else tuple(arg)] = tuple(content)


class SpecMismatch(Exception):
    pass


def d1(ctx, bs):
    """domain D1: CR only immediately before LF"""
    for i, b in enumerate(bs):
        nxt = bs[i + 1] if i + 1 < len(bs) else None
        if nxt is None:
            ctx.assume(t_not(t_eq(b, 13)))
        else:
            ctx.assume(t_or(t_not(t_eq(b, 13)), t_eq(nxt, 10)))


def mode_val(m, name):
    vs = m.src.enums['Mode']
    return EnumV('Mode', name, vs.index(name), ())


def run_preprocess(m, it, mode='Build', first_pass=False, trailing=True, src=SRC, base=b'/w'):
    pre = m.free['preprocess']
    shell = StructV('Shell', (str_of('/bin/sh'), VecV((str_of('-c'),))))
    f = StructV('AbsPath', (StrV(tuple(base)), StrV(tuple(src))))
    return it.call_mir(pre, [RefV(it.alloc(shell)), RefV(it.alloc(f)), mode_val(m, mode), first_pass, trailing])


def syms_of(bs):
    return [b if isinstance(b, int) else b[1] for b in bs]
