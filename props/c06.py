"""C06 Verify passes exactly when outputs are up to date, and is read-only.

Real `preprocess` in Verify mode (CtxOut::new(Verify), write_output, done) over symbolic sources and a fully symbolic
pre-existing output (absent / any bytes of every length within the bound): Ok <=> the file exists and equals what a
build would write now (reference semantics); the FS model's mutation log proves read-only behaviour.
Dependency outputs: verify processes dependencies through the same coordinator as build (C02 checks that the first
pass reports them in verify mode too).
"""
from .fsprops import *

H = 'props.fsprops'


MIR_KINDS = ('lib', 'bin')

def h_verify_nonascii(m, ctx, text=b't\xef\xbf\xbd', extra=0, free=None):
    """an output that contains multi-byte characters (here U+FFFD itself) against an existing output of arbitrary bytes: verify
    passes iff the bytes are identical -- a file that merely DECODES to the same text (a broken sequence decodes to U+FFFD) is stale"""
    from mirsym.interp import Interp
    from mirsym.core import t_bytes_eq, t_not
    it = Interp(m, ctx)
    it.exact_lossy = True
    source = tuple(text) + (10,)
    want = source
    pre_out = ctx.fresh_bytes('po', len(want) + extra, ANYBYTE)
    if free is not None:
        # only the bytes at the given positions are arbitrary, the others are the fresh ones
        pre_out = tuple(b if free[0] <= i < free[1] else want[i] for i, b in enumerate(pre_out))
    se = SymEnv(ctx, inc_len=0, out_len=0)
    env = se.install(it, source, pre_out=pre_out)
    r = run_preprocess(m, it, 'Verify', False, True)
    data = {'op': 'fs', 'mode': 'Verify', 'source': list(source), 'inc': [], 'pre_out': syms_of(pre_out), 'pre_temp': None, 'cmd_results': [],
            'lines': ['text'], 'source_shown': show_bytes(source)}
    ctx.cover('verify_nonascii_' + ('ok' if r.idx == 0 else 'err'))
    if r.idx == 0:
        check_bytes_equal(ctx, pre_out, want, 'verify passed on an output that is not byte-identical to the fresh one', data)
    elif extra == 0:
        ctx.check_holds(t_not(t_bytes_eq(tuple(pre_out), tuple(want))), 'verify failed on an up-to-date output', data)


def jobs(tier):
    js = []
    quick = tier == 'quick'
    lens = [None, 0, 1, 2, 3, 4, 5] if quick else [None] + list(range(0, 9))
    for pl in lens:
        js.append({'name': 'empty source pre_out=%s' % pl, 'harness': (H, 'h_verify'), 'params': {'nlines': 0, 'menu_name': 'small', 'pre_out_len': pl}})
        js.append({'name': '1 line pre_out=%s' % pl, 'harness': (H, 'h_verify'), 'params': {'nlines': 1, 'menu_name': 'small', 'pre_out_len': pl}})
        for f in (['text', 'include f', 'write', 'run', 'tag A'] if quick else [n for n, _ in menu('small')]):
            js.append({'name': '2 lines first=%s pre_out=%s' % (f, pl), 'harness': (H, 'h_verify'),
                       'params': {'nlines': 2, 'menu_name': 'small', 'fixed': [f], 'pre_out_len': pl}})
    for pl in ([3, 4] if quick else [3, 4, 5, 6]):
        js.append({'name': 'no-trailing-newline option, pre_out=%d' % pl, 'harness': (H, 'h_verify'),
                   'params': {'nlines': 1, 'menu_name': 'small', 'pre_out_len': pl, 'trailing': False}})
        js.append({'name': 'CRLF source pre_out=%d' % pl, 'harness': (H, 'h_verify'),
                   'params': {'nlines': 1, 'menu_name': 'small', 'pre_out_len': pl, 'le_choices': (b'\r\n',)}})
    for shape in range(len(DEP_SHAPES)):
        for kind in ('include', 'after'):
            js.append({'name': 'verify discovers dependency shape=%d %s' % (shape, kind), 'harness': (H, 'h_deps'),
                       'params': {'mode': 'Verify', 'shape': shape, 'kind': kind}})
    # the mode / options the binary hands to the library for every flag combination (real main() from the bin crate's MIR)
    for sub in ('Verify',):
        js.append({'name': 'cli: options passed to the run for sub-command %s x all flags' % sub, 'harness': ('props.c17', 'h_cli'),
                   'mir': ('lib', 'bin'), 'params': {'sub': sub, 'txtpp_file': None}})
    # (every arbitrary byte costs up to nine class forks in the lossy decoder: the number of free positions is kept at 3-4)
    variants = [(b't\xef\xbf\xbd', (1, 4))] if quick else [(b't\xef\xbf\xbd', (0, 4)), (b'\xc3\xa9x', None), (b'\xf0\x9f\x98\x80', (0, 4)),
                                                           (b'\xef\xbf\xbd\xef\xbf\xbd', (1, 5))]
    for txt, free in variants:
        js.append({'name': 'verify non-ASCII output %r against arbitrary bytes at %s' % (txt, free), 'harness': ('props.c06', 'h_verify_nonascii'),
                   'params': {'text': txt, 'free': free}, 'split': 8})
    for total in ((8192,) if quick else (8192, 16384, 8128)):
        for tr in (True, False):
            js.append({'name': 'verify: fresh output of exactly %d bytes, existing output longer (trailing=%s)' % (total, tr), 'harness': (H, 'h_exact_size'),
                       'params': {'total': total, 'mode': 'Verify', 'trailing': tr}, 'max_steps': 8_000_000})
    from . import project
    js += project.jobs('C06', tier)
    return js


BOUNDS = {'quick': 'sources of 0-2 lines over the small menu; existing output absent or any ASCII bytes of length 0-5 (every tampering of a short '
                   'output: flip / truncate / extend / delete); option on/off; LF/CRLF',
          'thorough': 'all 2-line sources; existing output of length 0-8'}
from . import project as _project
BOUNDS = {k: v + _project.bounds_note('C06', k) for k, v in BOUNDS.items()}
ASSUMPTIONS = ['D1-D12', 'std::fs / BufReader behaviour is a contract model (8 KiB reader buffer modelled)',
               '"never modifies" is established as "no mutating FS call on the output path" (inode / mtime follow by the OS contract)']
COVERS_REQUIRED = ['verify_nonascii_ok', 'verify_nonascii_err', 'deps_reported_Verify', 'verify_ok', 'verify_mismatch', 'verify_missing', 'verify_length_differs', 'verify_source_error']


def replay(native, v):
    d = v['data']
    if d['op'] == 'deps':
        return replay_deps(v)
    trailing = d.get('trailing', True)

    def judge(res, spec, env, d, model):
        r = res[0]
        pre = ppreplay.conc(d['pre_out'], model) if d.get('pre_out') is not None else None
        want_ok = spec.ok and pre is not None and pre == bytes(spec.output)
        if (r['rc'] == 0) != want_ok:
            return True
        return r['output'] != pre                # verify must leave the output exactly as it was
    steps = [(('verify',), trailing)]
    if not trailing:
        d2 = dict(d)
        bad, detail = replay_fs(v, steps, judge)
        # the concrete spec must use the same option
        spec, env = ppreplay.spec_concrete(d, d['model'], False)
        pre = ppreplay.conc(d['pre_out'], d['model']) if d.get('pre_out') is not None else None
        r = detail['runs'][0]
        want_ok = spec.ok and pre is not None and pre == bytes(spec.output)
        return ((r['rc'] == 0) != want_ok), detail
    return replay_fs(v, steps, judge)
