"""C16 Ordinary text passes through unchanged and write output is inert.

(a) sources without directive lines (fully symbolic lines, constrained by G1 to be ordinary text) are reproduced line for
    line with only line endings normalised; (b) a text escaped with `write` (README 'write' directive) is reproduced
    exactly: never re-read as a directive, never tag-substituted.  Real `preprocess` from MIR in both cases.
"""
from mirsym.core import Violation
from mirsym.interp import Interp
from mirsym.values import *
from spec import grammar, pp as specpp
from .common import *
from .ppgen import *
from . import ppreplay

LOOK = [ord(c) for c in 'TXP#-/ \tA' + 'runx']       # look-alike alphabet for text bytes


def h_text(m, ctx, lens, les, final_newline, trailing=True, alpha='ascii', pre_out_len=None):
    """directive-free source: every line is n symbolic bytes assumed (by G1) to be ordinary text"""
    it = Interp(m, ctx)
    dom = ASCII_LINE if alpha == 'ascii' else LOOK
    lines = [ctx.fresh_bytes('t%d' % i, n, dom) for i, n in enumerate(lens)]
    content = []
    for i, l in enumerate(lines):
        content.extend(l)
        if i < len(lines) - 1 or final_newline:
            content.extend(les[i % len(les)])
    source = tuple(content)
    for l in lines:
        if grammar.classify(ctx, l) is not None:
            return                                   # not a directive-free source: outside this clause
    se = SymEnv(ctx, inc_len=0, out_len=0)
    pre_out = ctx.fresh_bytes('po', pre_out_len, ASCII_ALL) if pre_out_len is not None else None       # the output of an older version
    env = se.install(it, source, pre_out=pre_out)
    r = run_preprocess(m, it, 'Build', False, trailing)
    data = {'op': 'pp', 'source': syms_of(source), 'inc': [], 'cmd_results': [], 'trailing': trailing, 'source_shown': show_bytes(source),
            'pre_out': syms_of(pre_out) if pre_out is not None else None}
    if r.idx != 0:
        violation(ctx, 'a source without directives failed to build', data)
    le = tuple(les[0]) if (len(lines) > 1 or final_newline) else (10,)
    if len(source) == 0:
        lines = []                                  # an empty file has no lines
    want = []
    for i, l in enumerate(lines):
        if i:
            want.extend(le)
        want.extend(l)
    if lines and trailing:
        want.extend(le)
    ctx.cover('text_only')
    check_bytes_equal(ctx, env.read_file(OUT), tuple(want), 'directive-free source is not reproduced line for line', data)
    if se.cmd_results:
        violation(ctx, 'a command was run for a source without directives', data)


def h_raw(m, ctx, n, trailing=True, alpha=(120, 13, 10)):
    """directive-free source given as n raw symbolic bytes over {x, CR, LF}: where the lines end is decided by the bytes
    themselves (lone CR, CR CR LF, CR at end of file ... are line CONTENT; only LF / CR LF terminate a line)"""
    it = Interp(m, ctx)
    source = ctx.fresh_bytes('r', n, list(alpha))
    se = SymEnv(ctx, inc_len=0, out_len=0)
    env = se.install(it, source)
    r = run_preprocess(m, it, 'Build', False, trailing)
    data = {'op': 'pp', 'source': syms_of(source), 'inc': [], 'cmd_results': [], 'trailing': trailing, 'source_shown': show_bytes(source)}
    if r.idx != 0:
        violation(ctx, 'a source without directives failed to build', data)
    spec = specpp.process(ctx, source, se, trailing)
    ctx.cover('raw_text')
    check_bytes_equal(ctx, env.read_file(OUT), spec.output, 'directive-free source is not reproduced line for line', data)


def h_two_tags(m, ctx, nv=2, nt=3, le=b'\n'):
    """two stored tags A and B whose contents were captured from write directives (symbolic over {A, B, x}: the text of one
    tag may spell the other tag's name) and an ordinary line that may use both: injected write text is never scanned again"""
    it = Interp(m, ctx)
    AB = [65, 66, 120]
    v1 = ctx.fresh_bytes('v1', nv, AB)
    v2 = ctx.fresh_bytes('v2', nv, AB)
    t = ctx.fresh_bytes('t', nt, AB + [32])
    src = []
    # different prefixes, or the second pair would continue the first write; the text line starts with '.' for the same reason
    for l in (tuple(b'-TXTPP#tag A'), tuple(b'-TXTPP#write ') + v1, tuple(b'+TXTPP#tag B'), tuple(b'+TXTPP#write ') + v2, (46,) + t):
        src += list(l) + list(le)
    source = tuple(src)
    se = SymEnv(ctx, inc_len=0, out_len=0)
    env = se.install(it, source)
    r = run_preprocess(m, it, 'Build', False, True)
    data = {'op': 'pp', 'source': syms_of(source), 'inc': [], 'cmd_results': [], 'trailing': True, 'source_shown': show_bytes(source)}
    spec = specpp.process(ctx, source, se, True)
    if (r.idx == 0) != spec.ok:
        violation(ctx, 'two tags: verdict differs (implementation %s, semantics %s: %s)' % ('Ok' if r.idx == 0 else 'Err', 'Ok' if spec.ok else 'Err', spec.error), data)
    if r.idx != 0:
        return
    ctx.cover('two_tags_used')
    check_bytes_equal(ctx, env.read_file(OUT), spec.output, 'write text injected through a tag was modified / scanned again', data)


def h_long_first_line(m, ctx, fill, second=b'second', trailing=True):
    """a source whose first line is longer than the 8 KiB I/O buffers: `fill` x's + 2 symbolic bytes over {x, CR} + LF, then a
    second line with its own (symbolic) terminator: reproduced line for line with the first line's ending"""
    it = Interp(m, ctx)
    it.max_loop_visits = 20000
    tail = ctx.fresh_bytes('b', 2, [120, 13])
    t2 = ctx.fresh_bytes('c', 1, [120, 13])
    source = tuple([120] * fill) + tail + (10,) + tuple(second) + t2 + (10,)
    se = SymEnv(ctx, inc_len=1, out_len=0)
    env = se.install(it, source)
    r = run_preprocess(m, it, 'Build', False, trailing)
    data = {'op': 'pp', 'source': syms_of(source), 'inc': syms_of(se.inc_content), 'cmd_results': [], 'trailing': trailing,
            'source_shown': 'x*%d + %s' % (fill, show_bytes(source[fill:]))}
    spec = specpp.process(ctx, source, se, trailing)
    if (r.idx == 0) != spec.ok:
        violation(ctx, 'long first line: verdict differs', data)
    if r.idx != 0:
        return
    ctx.cover('long_first_line')
    check_bytes_equal(ctx, env.read_file(OUT), spec.output, 'source with a first line longer than 8 KiB is not reproduced line for line', data)


TOKENS = [b'TXTPP#run x', b'-TXTPP#', b'TXTPP#tag A', b'A', b'-', b'// TXTPP#include f', b'x']


def h_write_roundtrip(m, ctx, shape, le, stored_tag, terminator, prefix=b'-', ws=b''):
    """text lines (token + symbolic bytes) escaped with write must come out exactly; shape = [(token_idx|None, nsym), ...]"""
    it = Interp(m, ctx)
    lines = []
    for i, (tok, nsym) in enumerate(shape):
        l = list(TOKENS[tok]) if tok is not None else []
        l += list(ctx.fresh_bytes('w%d' % i, nsym, LOOK))
        lines.append(tuple(l))
    # write-escape requirements (README): no leading blank on the first line, no trailing blanks on any line
    from mirsym.core import t_in, t_not
    WSSET = frozenset([9, 10, 11, 12, 13, 32])
    if lines and lines[0] and not isinstance(lines[0][0], int):
        ctx.assume(t_not(t_in(lines[0][0], WSSET)))
    for l in lines:
        if l and not isinstance(l[-1], int):
            ctx.assume(t_not(t_in(l[-1], WSSET)))
    if lines and len(lines[0]) == 0:
        return
    src = []
    if stored_tag:
        # a stored tag named A whose content is "v": must not be substituted inside write output
        src += list(ws + prefix + b'TXTPP#tag A') + list(le) + list(ws + prefix + b'TXTPP#write v') + list(le) + list(b'') 
        src += list(b'.') + list(le)       # ordinary line ends the write directive ("." has no tag)
    for i, l in enumerate(lines):
        head = ws + prefix + (b'TXTPP#write ' if i == 0 else b'')
        src += list(head) + list(l) + list(le)
    # the escape ends with a bare prefix line: the last (empty) argument gives the text its final line break
    src += list(ws + prefix.rstrip()) + list(le)
    if terminator == 'text':
        src += list(b'.') + list(le)
    elif terminator == 'tagline':
        src += list(b'A') + list(le)
    source = tuple(src)
    se = SymEnv(ctx, inc_len=0, out_len=0)
    env = se.install(it, source)
    r = run_preprocess(m, it, 'Build', False, True)
    data = {'op': 'pp', 'source': syms_of(source), 'inc': [], 'cmd_results': [], 'trailing': True, 'source_shown': show_bytes(source)}
    want = []
    if stored_tag:
        want += list(b'.') + list(le)
    body = []
    for i, l in enumerate(lines):
        if i:
            body.extend(le)
        body.extend(ws)
        body.extend(l)
    want += body + list(le)
    if terminator == 'text':
        want += list(b'.') + list(le)
    elif terminator == 'tagline':
        want += (list(b'v') if stored_tag else list(b'A')) + list(le)
    expect_ok = not (stored_tag and terminator != 'tagline')       # an unused tag at EOF is an error (C14)
    if (r.idx == 0) != expect_ok:
        violation(ctx, 'write-escaped text: verdict differs (a line of the text was treated as a directive?)', data)
    if not expect_ok:
        return
    ctx.cover('roundtrip')
    if stored_tag:
        ctx.cover('roundtrip_with_tag')
    got = env.read_file(OUT)
    if terminator == 'eof' and len(got) == len(want) + len(le):
        want = want + list(le)                      # D5: a source ending in a directive may carry one more final line ending
    check_bytes_equal(ctx, got, tuple(want), 'write-escaped text is not reproduced exactly', data)
    if se.cmd_results:
        violation(ctx, 'write output was executed as a directive', data)


H = 'props.c16'


def jobs(tier):
    js = []
    quick = tier == 'quick'
    LFs = [(b'\n',), (b'\r\n',)]
    for n in (range(0, 9) if quick else range(0, 12)):
        for fin in (False, True):
            js.append({'name': 'text 1 line n=%d fin=%s' % (n, fin), 'harness': (H, 'h_text'),
                       'params': {'lens': [n], 'les': LFs[n % 2], 'final_newline': fin}, 'split': 8 if n >= 8 else 1})
    for a, b in ([(7, 2), (2, 7), (0, 7)] if quick else [(8, 3), (3, 8), (0, 8), (7, 7)]):
        js.append({'name': 'text 2 lines %d,%d look-alike' % (a, b), 'harness': (H, 'h_text'),
                   'params': {'lens': [a, b], 'les': (b'\r\n', b'\n'), 'final_newline': True, 'alpha': 'look'}, 'split': 16})
    for n in (range(1, 6) if quick else range(1, 9)):
        for tr in (True, False):
            js.append({'name': 'raw text n=%d trailing=%s' % (n, tr), 'harness': (H, 'h_raw'), 'params': {'n': n, 'trailing': tr},
                       'split': 4 if n >= 6 else 1})
    js.append({'name': 'two tags holding write text', 'harness': (H, 'h_two_tags'), 'params': {'nv': 2, 'nt': 3 if quick else 4}, 'split': 8})
    for fill in ((8189, 8190) if quick else (8188, 8189, 8190, 8191, 16390)):
        js.append({'name': 'first line of %d+2 bytes, second line text' % fill, 'harness': (H, 'h_long_first_line'), 'params': {'fill': fill},
                   'max_steps': 8_000_000})
    # a write whose text starts on the line after the directive (empty first argument), at the start and in the middle of a file
    for sc in (['write bare', 'cont prefix'], ['text', 'write bare', 'cont prefix', 'text'], ['write bare', 'cont bare', 'cont prefix']):
        js.append({'name': 'write with an empty first line: ' + '/'.join(sc), 'harness': ('props.c01', 'h_conform'),
                   'params': {'nlines': len(sc), 'menu_name': 'small', 'fixed': sc, 'inc_len': 0, 'out_len': 0}})
    for sc in (['temp tab', 'cont hash'], ['run tab', 'cont hash'], ['empty tab', 'text'], ['text', 'temp tab']):
        js.append({'name': 'a TAB after the directive name makes the line ordinary text: ' + '/'.join(sc), 'harness': ('props.c01', 'h_conform'),
                   'params': {'nlines': len(sc), 'menu_name': 'small+', 'fixed': sc, 'le_choices': (b'\n',), 'inc_len': 0, 'out_len': 0}})
    for n in (0, 1, 3):
        js.append({'name': 'text 1 line n=%d over the output of an older version' % n, 'harness': (H, 'h_text'),
                   'params': {'lens': [n], 'les': (b'\n',), 'final_newline': n > 0, 'pre_out_len': 4}})
    js.append({'name': 'text no-trailing', 'harness': (H, 'h_text'), 'params': {'lens': [3, 2], 'les': (b'\n',), 'final_newline': True, 'trailing': False}})
    shapes = [[(0, 1)], [(1, 1), (0, 0)], [(None, 3), (2, 1)], [(3, 1), (3, 0), (4, 1)], [(5, 0), (None, 2)], [(6, 2), (1, 0), (None, 2)]]
    if not quick:
        shapes += [[(None, 5)], [(None, 3), (None, 3)], [(2, 2), (0, 2), (3, 2)], [(1, 2), (1, 2)], [(None, 2), (None, 2), (None, 2)]]
    for si, sh in enumerate(shapes):
        for le in (b'\n', b'\r\n'):
            for st in (False, True):
                for term in ('eof', 'text', 'tagline'):
                    if quick and le == b'\r\n' and term == 'text':
                        continue
                    js.append({'name': 'write roundtrip shape%d le=%r tag=%s term=%s' % (si, le, st, term), 'harness': (H, 'h_write_roundtrip'),
                               'params': {'shape': sh, 'le': le, 'stored_tag': st, 'terminator': term}})
    js.append({'name': 'write roundtrip indented //', 'harness': (H, 'h_write_roundtrip'),
               'params': {'shape': [(0, 1), (5, 1)], 'le': b'\n', 'stored_tag': True, 'terminator': 'tagline', 'prefix': b'// ', 'ws': b'  '}})
    return js


BOUNDS = {'quick': 'directive-free sources: every byte string of 1-5 bytes over {x, CR, LF} (lone CR, CR CR LF, CR at EOF), 1 line of 0-8 arbitrary ASCII bytes, 2 lines of up to 7 bytes over a directive look-alike alphabet, '
                   'LF/CRLF/mixed, with/without final newline; write round trip: 1-3 lines, each a look-alike token (TXTPP#run x, -TXTPP#, '
                   'TXTPP#tag A, a stored tag name, the prefix itself, ...) + up to 3 symbolic bytes, with and without a stored tag; two tags holding 2 symbolic bytes of write text over {A,B,x} used on a line of 3 symbolic bytes',
          'thorough': 'raw 1-8 bytes; text: 0-11 bytes, 2 lines up to 8+3; write round trip: 11 shapes x LF/CRLF x tag x terminator'}
ASSUMPTIONS = ['D1, D2; escaped text has no leading blank on the first line and no trailing blanks (as the property states)']
COVERS_REQUIRED = ['long_first_line', 'two_tags_used', 'raw_text', 'text_only', 'roundtrip', 'roundtrip_with_tag']


def replay(native, v):
    d = v['data']
    model = d['model']
    nat = ppreplay.run_native(d, model, trailing=d.get('trailing', True))
    spec, env = ppreplay.spec_concrete(d, model, d.get('trailing', True))
    detail = {'source': repr(ppreplay.conc(d['source'], model)), 'native_rc': nat['rc'], 'native_output': repr(nat['output']),
              'expected_ok': spec.ok, 'expected_output': repr(bytes(spec.output))}
    bad = (nat['rc'] == 0) != spec.ok or (spec.ok and nat['output'] != bytes(spec.output))
    return bad, detail
