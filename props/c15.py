"""C15 Directive recognition and continuation follow the documented grammar.

Real `Directive::detect_from` / `Directive::add_line` (MIR) against G1 / G2 for every line of the
given byte length whose bytes range over all ASCII values a source line can contain, plus layouts
with concrete non-ASCII characters (a letter and a Unicode white space) at every position.
"""
from mirsym.core import Violation
from mirsym.interp import Interp
from mirsym.values import *
from spec import grammar
from .common import *

NONASCII = {'e_acute': tuple('é'.encode()), 'nbsp': tuple(' '.encode()), 'ideographic_space': tuple('　'.encode())}

TOKENS = {'hash': tuple(b'TXTPP#'), 'hash_run': tuple(b'TXTPP#run'), 'hash_includes': tuple(b'TXTPP#includes ')}

def make_line(ctx, name, n, layout=None):
    """n symbolic ASCII bytes; layout = (pos, key) inserts a concrete non-ASCII char before symbolic byte pos"""
    bs = list(ctx.fresh_bytes(name, n, ASCII_LINE))
    if layout is not None:
        items = [layout] if not isinstance(layout[0], (list, tuple)) else list(layout)
        # several insertions: positions refer to the symbolic bytes, applied from the right so that they stay valid
        for pos, key in sorted(items, key=lambda x: -x[0]):
            bs[pos:pos] = list(NONASCII[key] if key in NONASCII else TOKENS[key])
    return tuple(bs)


def h_detect(m, ctx, n, layout=None):
    it = Interp(m, ctx)
    line = make_line(ctx, 'line', n, layout)
    fn = m.find_method('Directive', 'detect_from')
    ctx.notes['data'] = {'op': 'detect_from', 'line_syms': [b if isinstance(b, int) else b[1] for b in line]}       # for a panic inside
    got = directive_of(it, it.call_mir(fn, [StrV(line)]))
    want = grammar.classify(ctx, line)
    data = {'line': show_bytes(line), 'line_syms': [b if isinstance(b, int) else b[1] for b in line], 'op': 'detect_from'}
    if got is None:
        ctx.notes['native_check'] = {'kind': 'line', 'request': nc_tokens('detect_from', line), 'expect': nc_tokens('NONE')}
    else:
        ctx.notes['native_check'] = {'kind': 'line', 'request': nc_tokens('detect_from', line),
                                     'expect': nc_tokens('SOME', got[0], got[1], got[2], '1', got[3][0])}
    if (got is None) != (want is None):
        violation(ctx, 'detect_from: directive/text classification differs from G1', dict(data, impl=repr(got), spec=repr(want)))
    if got is None:
        ctx.cover('text')
        return
    ctx.cover('directive:' + want[2])
    if want[1]:
        ctx.cover('nonempty_prefix')
    if got[2] != want[2]:
        violation(ctx, 'detect_from: directive type differs', dict(data, impl=got[2], spec=want[2]))
    if len(got[3]) != 1:
        violation(ctx, 'detect_from: number of args', data)
    check_bytes_equal(ctx, got[0], want[0], 'detect_from: leading whitespace', data)
    check_bytes_equal(ctx, got[1], want[1], 'detect_from: prefix', data)
    check_bytes_equal(ctx, got[3][0], want[3], 'detect_from: first argument', data)


TYPES = ['Empty', 'Include', 'After', 'Run', 'Tag', 'Temp', 'Write']


def h_addline(m, ctx, nws, npre, n, ty, layout=None, prefix_layout=None):
    """arbitrary directive state satisfying the representation invariant of detect_from's results
    (ws = white space only, prefix does not start with white space) + one add_line"""
    it = Interp(m, ctx)
    ws = ctx.fresh_bytes('ws', nws, [9, 32, 11, 12])
    prefix = ctx.fresh_bytes('prefix', npre, ASCII_LINE)
    if npre:
        from mirsym.core import t_in, t_not
        ctx.assume(t_not(t_in(prefix[0], frozenset([9, 10, 11, 12, 13, 32]))))
    if prefix_layout is not None:
        pl = list(prefix)
        pl[prefix_layout[0]:prefix_layout[0]] = list(NONASCII[prefix_layout[1]])
        prefix = tuple(pl)
    line = make_line(ctx, 'line', n, layout)
    enums = m.src.enums['DirectiveType']
    d = StructV('Directive', (StrV(ws), StrV(prefix), EnumV('DirectiveType', ty, enums.index(ty), ()), VecV((StrV(tuple(b'a0')),))))
    cell = it.alloc(d)
    fn = m.find_method('Directive', 'add_line')
    ctx.notes['data'] = {'op': 'add_line', 'type': ty, 'ws_syms': [b if isinstance(b, int) else b[1] for b in ws],
                         'prefix_syms': [b if isinstance(b, int) else b[1] for b in prefix],
                         'line_syms': [b if isinstance(b, int) else b[1] for b in line]}        # for a panic inside add_line
    r = it.call_mir(fn, [RefV(cell), StrV(line)])
    after = directive_struct(it, it.load(cell))
    want = grammar.continuation(ctx, (ws, prefix, ty), line)
    data = {'op': 'add_line', 'ws': show_bytes(ws), 'prefix': show_bytes(prefix), 'type': ty, 'line': show_bytes(line),
            'ws_syms': [b if isinstance(b, int) else b[1] for b in ws],
            'prefix_syms': [b if isinstance(b, int) else b[1] for b in prefix],
            'line_syms': [b if isinstance(b, int) else b[1] for b in line]}
    accepted = (r.idx == 0)
    if prefix_layout is not None:
        # D3: for a prefix with multi-byte characters the README does not say whether "as many spaces as the prefix is long" counts
        # bytes or characters; either reading is accepted, but it must be ONE reading: the padding that is matched is the padding
        # that is cut off
        from spec.prims import starts_with, beq, rtrim
        from mirsym.core import t_bytes_eq, t_or
        nchars = len(bytes(b if isinstance(b, int) else 120 for b in prefix).decode('utf8', 'replace'))
        want_c = None
        if starts_with(ctx, line, ws):
            x = tuple(line[len(ws):])
            if beq(ctx, x, rtrim(ctx, prefix)):
                want_c = ()
            elif starts_with(ctx, x, prefix):
                want_c = rtrim(ctx, x[len(prefix):])
            elif starts_with(ctx, x, (32,) * nchars):
                want_c = rtrim(ctx, x[nchars:])
        data['spec_bytes_reading'] = None if want is None else show_bytes(want)
        data['spec_chars_reading'] = None if want_c is None else show_bytes(want_c)
        if not accepted:
            if want is not None and want_c is not None:
                violation(ctx, 'add_line: a continuation line is rejected under both readings of the padding length', data)
            ctx.cover('rejected')
            return
        ctx.cover('accepted')
        cands = [w for w in (want, want_c) if w is not None and len(w) == len(after[3][-1])]
        if len(after[3]) != 2 or not cands:
            violation(ctx, 'add_line: accepted line / argument matches neither reading of the padding length', data)
        ctx.check_holds(t_or(*[t_bytes_eq(tuple(after[3][-1]), tuple(w)) for w in cands]),
                        'add_line: continuation argument matches neither reading of the padding length', data)
        return
    if accepted != (want is not None):
        violation(ctx, 'add_line: accept/reject differs from G2', dict(data, impl=accepted, spec=want is not None))
    check_bytes_equal(ctx, after[0], ws, 'add_line: whitespace field changed', data)
    check_bytes_equal(ctx, after[1], prefix, 'add_line: prefix field changed', data)
    if not accepted:
        ctx.cover('rejected')
        if len(after[3]) != 1:
            violation(ctx, 'add_line: rejected line changed the argument list', data)
        return
    ctx.cover('accepted')
    if len(after[3]) != 2:
        violation(ctx, 'add_line: accepted line must add exactly one argument', data)
    check_bytes_equal(ctx, after[3][1], want, 'add_line: continuation argument', data)


def h_pair(m, ctx, n1, n2):
    """(directive line, candidate continuation line): state produced by the real detect_from"""
    it = Interp(m, ctx)
    l1 = make_line(ctx, 'first', n1)
    l2 = make_line(ctx, 'line', n2)
    got = it.call_mir(m.find_method('Directive', 'detect_from'), [StrV(l1)])
    if got.idx == 0:
        return
    d = directive_of(it, got)
    cell = it.alloc(got.f[0])
    r = it.call_mir(m.find_method('Directive', 'add_line'), [RefV(cell), StrV(l2)])
    after = directive_struct(it, it.load(cell))
    want = grammar.continuation(ctx, (d[0], d[1], d[2]), l2)
    data = {'op': 'pair', 'first': show_bytes(l1), 'line': show_bytes(l2),
            'first_syms': [b if isinstance(b, int) else b[1] for b in l1],
            'line_syms': [b if isinstance(b, int) else b[1] for b in l2]}
    accepted = (r.idx == 0)
    if accepted != (want is not None):
        violation(ctx, 'detect_from+add_line: accept/reject differs from G2', dict(data, impl=accepted, spec=want is not None))
    if accepted:
        ctx.cover('pair_accepted')
        check_bytes_equal(ctx, after[3][-1], want, 'detect_from+add_line: continuation argument', data)


H = 'props.c15'
validate_samples = validate_line_samples


def jobs(tier):
    js = []
    nmax = 9 if tier == 'quick' else 12
    for n in range(0, nmax + 1):
        js.append({'name': 'detect:n=%d' % n, 'harness': (H, 'h_detect'), 'params': {'n': n}, 'split': 16 if n >= 9 else 1})
    nl = 7 if tier == 'quick' else 9
    for key in NONASCII:
        for pos in range(0, nl + 1):
            js.append({'name': 'detect:n=%d+%s@%d' % (nl, key, pos), 'harness': (H, 'h_detect'),
                       'params': {'n': nl, 'layout': (pos, key)}})
    # add_line from an arbitrary invariant-satisfying state
    amax = 6 if tier == 'quick' else 8
    for ty in TYPES:
        for nws in (0, 1, 2):
            for npre in (0, 1, 2, 3):
                if ty in ('Include', 'After', 'Tag') and (nws, npre) != (1, 1):
                    continue
                for n in ([0, 1, 2, 3, 4, 5, 6] if tier == 'quick' else list(range(0, amax + 1))):
                    js.append({'name': 'add_line:%s ws=%d pre=%d n=%d' % (ty, nws, npre, n), 'harness': (H, 'h_addline'),
                               'params': {'nws': nws, 'npre': npre, 'n': n, 'ty': ty}})
    for pos in range(0, 5):
        js.append({'name': 'add_line:Run ws=1 pre=2 n=4+nbsp@%d' % pos, 'harness': (H, 'h_addline'),
                   'params': {'nws': 1, 'npre': 2, 'n': 4, 'ty': 'Run', 'layout': (pos, 'nbsp')}})
    # lines with two `TXTPP#`: only the FIRST one on the line can start a directive
    for n in ((6, 7) if tier == 'quick' else (6, 7, 8, 9)):
        for pos in (0, 1):
            js.append({'name': 'detect:TXTPP#@%d + %d free bytes' % (pos, n), 'harness': (H, 'h_detect'), 'params': {'n': n, 'layout': (pos, 'hash')},
                       'split': 8})
    for a, b in ((0, 0), (0, 1), (0, 2), (1, 3), (0, 4)):
        js.append({'name': 'detect:two TXTPP# at %d,%d of 4 free bytes' % (a, b), 'harness': (H, 'h_detect'),
                   'params': {'n': 4, 'layout': [(a, 'hash'), (b, 'hash')]}})
        js.append({'name': 'detect:TXTPP#includes + TXTPP#run at %d,%d of 3 free bytes' % (a, min(b, 3)), 'harness': (H, 'h_detect'),
                   'params': {'n': 3, 'layout': [(min(a, 3), 'hash_includes'), (min(b, 3), 'hash_run')]}})
    # prefixes with a multi-byte character: "as many spaces as the prefix is long" is its length in bytes, consistently
    for key in ('e_acute', 'ideographic_space'):
        for ppos in (0, 1):
            for n in ((2, 3, 4, 5) if tier == 'quick' else (1, 2, 3, 4, 5, 6, 7)):
                for ty in ('Run', 'Write'):
                    js.append({'name': 'add_line:%s prefix with %s@%d n=%d' % (ty, key, ppos, n), 'harness': (H, 'h_addline'),
                               'params': {'nws': 0, 'npre': 1, 'n': n, 'ty': ty, 'prefix_layout': (ppos, key)}})
    pairs = [(8, 3), (9, 4)] if tier == 'quick' else [(8, 3), (9, 4), (10, 5), (11, 4)]
    for n1, n2 in pairs:
        js.append({'name': 'pair:%d,%d' % (n1, n2), 'harness': (H, 'h_pair'), 'params': {'n1': n1, 'n2': n2}, 'split': 16})
    # whole files whose lines use different terminators (LF first line, CR LF later): the CR is never part of the line the grammar sees
    for sc in (['text', 'empty'], ['text', 'run'], ['write', 'cont bare', 'text'], ['text', 'write', 'cont bare'], ['temp', 'cont bare', 'cont prefix']):
        js.append({'name': 'file with mixed line terminators: ' + '/'.join(sc), 'harness': ('props.c01', 'h_conform'),
                   'params': {'nlines': len(sc), 'menu_name': 'small', 'fixed': sc, 'mix_le': True, 'inc_len': 0, 'out_len': 1}})
    from . import project
    js += project.jobs('C15', tier)
    return js


BOUNDS = {
    'quick': 'detect_from: every ASCII line of 0..9 bytes + 7 symbolic bytes with one non-ASCII char (é, NBSP, U+3000) at each position; '
             'add_line: ws 0..2 bytes, prefix 0..3 bytes, line 0..6 bytes, all 7 types; pairs (first line, next line) of (8,3),(9,4) bytes',
    'thorough': 'detect_from: 0..12 bytes + 9 symbolic bytes with one non-ASCII char; add_line: line 0..8 bytes; pairs up to (11,4)',
}
from . import project as _project
BOUNDS = {k: v + _project.bounds_note('C15', k) for k, v in BOUNDS.items()}


def replay(native, v):
    if v['data'].get('op') == 'kani':
        return kani_replay(v)
    if v['data'].get('op') == 'pp':
        from . import c01
        return c01.replay(native, v)
    """re-run a counterexample on the natively compiled code and on the concrete spec -> (confirmed, detail)"""
    d = v['data']
    model = d['model']
    cc = ConcreteCtx()

    def conc(key):
        return bytes(x if isinstance(x, int) else model[x] for x in d[key])
    if d['op'] == 'detect_from':
        line = conc('line_syms')
        out = native.ask('detect_from ' + hexs(line))
        want = grammar.classify(cc, tuple(line))
        if want is None:
            exp = 'NONE'
        else:
            exp = 'SOME %s %s %s 1 %s' % (hexs(bytes(want[0])), hexs(bytes(want[1])), want[2], hexs(bytes(want[3])))
        return out != exp, {'input_line': repr(line), 'native': out, 'spec': exp}
    if d['op'] == 'add_line':
        ws, prefix, line = conc('ws_syms'), conc('prefix_syms'), conc('line_syms')
        out = native.ask('add_line %s %s %s 1 %s %s' % (hexs(ws), hexs(prefix), d['type'], hexs(b'a0'), hexs(line)))
        want = grammar.continuation(cc, (tuple(ws), tuple(prefix), d['type']), tuple(line))
        def fmt_(w):
            if w is None:
                return 'ERR %s %s %s 1 %s' % (hexs(ws), hexs(prefix), d['type'], hexs(b'a0'))
            return 'OK %s %s %s 2 %s %s' % (hexs(ws), hexs(prefix), d['type'], hexs(b'a0'), hexs(bytes(w)))
        exp = fmt_(want)
        exps = [exp]
        if any(b >= 0x80 for b in prefix) and d['type'] in grammar.MULTILINE:
            # D3: the character-count reading of the padding length is accepted as well
            nchars = len(prefix.decode('utf8', 'replace'))
            want_c = None
            if line.startswith(ws):
                x = line[len(ws):]
                if x == prefix.rstrip():
                    want_c = b''
                elif x.startswith(prefix):
                    want_c = bytes(grammar.rtrim(cc, tuple(x[len(prefix):]))) if hasattr(grammar, 'rtrim') else x[len(prefix):].rstrip()
                elif x.startswith(b' ' * nchars):
                    want_c = x[nchars:].rstrip()
            exps.append(fmt_(want_c))
        return out not in exps, {'ws': repr(ws), 'prefix': repr(prefix), 'type': d['type'], 'line': repr(line), 'native': out, 'spec': exps}
    if d['op'] == 'pair':
        first, line = conc('first_syms'), conc('line_syms')
        o1 = native.ask('detect_from ' + hexs(first))
        if not o1.startswith('SOME'):
            return False, {'native': o1}
        t = o1.split()
        ws, prefix, ty = unhex(t[1]), unhex(t[2]), t[3]
        out = native.ask('add_line %s %s %s 1 %s %s' % (t[1], t[2], ty, t[5], hexs(line)))
        want = grammar.continuation(cc, (tuple(ws), tuple(prefix), ty), tuple(line))
        if want is None:
            ok_ = out.startswith('ERR')
        else:
            ok_ = out.startswith('OK') and out.split()[-1] == hexs(bytes(want))
        return not ok_, {'first': repr(first), 'line': repr(line), 'native': out, 'spec': repr(want)}
    return False, {'error': 'unknown op'}


def extra_engines(tier, seed, args):
    """engine E1: Kani on the compiled leaf functions (second, independent lowering)"""
    from lib import kani
    hs = ['directive_type_table'] if tier == 'quick' else ['directive_type_table', 'detect_from_matches_g1_6', 'stub_find_equiv']
    if not hs or getattr(args, 'only', None):
        return {'inconclusive': [], 'violations': [], 'evidence': None}
    return kani.extra(hs, 600 if tier == 'quick' else 2400, 'DirectiveType::try_from name table on <=8 ASCII bytes; detect_from == G1 on every ASCII line of <=6 bytes')


def kani_replay(v):
    """a failed Kani harness on the compiled code is already a statement about the real code; it is confirmed by
    re-running the harness once more (deterministic) and reported with the failing checks"""
    from lib import kani
    r = kani.run_harness(v['data']['harness'], timeout_s=1500)
    return r['status'] == 'failed', {'harness': v['data']['harness'], 'failed_checks': r['failed_checks']}
