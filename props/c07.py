"""C07 Clean removes exactly what build generated and never executes anything.

Real `preprocess` in Clean mode after a real (symbolic) build, without a build, and twice: the FS model shows which paths
are removed / created, the process model shows whether a command is ever constructed, decoy files must stay intact.
"""
from .fsprops import *

H = 'props.fsprops'


MIR_KINDS = ('lib', 'bin')

def jobs(tier):
    js = []
    quick = tier == 'quick'
    firsts = [n for n, _ in menu('small')]
    for hist in ('build-clean', 'clean', 'build-clean-clean'):
        js.append({'name': '%s 1 line' % hist, 'harness': (H, 'h_clean'), 'params': {'nlines': 1, 'menu_name': 'small', 'history': hist}})
        for f in firsts:
            if quick and hist != 'build-clean' and f not in ('temp', 'run', 'write', 'temp txtpp', 'include g(missing)'):
                continue
            js.append({'name': '%s 2 lines first=%s' % (hist, f), 'harness': (H, 'h_clean'),
                       'params': {'nlines': 2, 'menu_name': 'small', 'fixed': [f], 'history': hist}})
    for f in (['include f', 'tag A', 'after f', 'write', 'run', 'temp', 'empty'] if quick else firsts):
        js.append({'name': 'build-clean 3 lines %s/temp' % f, 'harness': (H, 'h_clean'),
                   'params': {'nlines': 3, 'menu_name': 'small', 'fixed': [f, 'temp'], 'history': 'build-clean'}})
        js.append({'name': 'build-clean 3 lines temp/%s' % f, 'harness': (H, 'h_clean'),
                   'params': {'nlines': 3, 'menu_name': 'small', 'fixed': ['temp', f], 'history': 'build-clean'}})
    if not quick:
        for f in firsts:
            for g in ['temp', 'cont prefix', 'cont bare', 'run', 'tag A']:
                js.append({'name': 'build-clean 3 lines %s/%s CRLF' % (f, g), 'harness': (H, 'h_clean'),
                           'params': {'nlines': 3, 'menu_name': 'small', 'fixed': [f, g], 'history': 'build-clean', 'le_choices': (b'\r\n',)}})
    # text inside a write / run / empty block that looks like a temp directive, next to a hand-written file of that name
    for first in ('write', 'run', 'empty'):
        for hist in ('build-clean', 'clean'):
            js.append({'name': '%s %s block containing a temp look-alike, hand-written t.tmp' % (hist, first), 'harness': (H, 'h_clean'),
                       'params': {'nlines': 2, 'menu_name': 'small', 'fixed': [first, 'cont looks-like-temp'], 'history': hist, 'pre_temp_len': 2}})
    # the output removed by hand between build and clean: the temp files are still build's
    for sc in (['temp', 'cont prefix'], ['text', 'temp'], ['temp', 'text']):
        js.append({'name': 'build, output removed by hand, clean: ' + '/'.join(sc), 'harness': (H, 'h_clean'),
                   'params': {'nlines': len(sc), 'menu_name': 'small', 'fixed': sc, 'history': 'build-rmout-clean'}})
    # a directory sitting at the temp target: clean cannot remove it, must not fail, and still removes what comes later
    for sc in (['temp'], ['temp', 'cont prefix'], ['temp', 'text'], ['text', 'temp']):
        for hist in ('clean', 'build-clean-clean'):
            js.append({'name': '%s with a directory at the temp target: %s' % (hist, '/'.join(sc)), 'harness': (H, 'h_clean'),
                       'params': {'nlines': len(sc), 'menu_name': 'small', 'fixed': sc, 'history': hist, 'dir_at_temp': True}})
    # erroneous directives (no prefix on a multi-line directive, indented) naming a file the user wrote by hand
    for hist in ('clean', 'build-clean'):
        for f in ('temp', 'run', 'write', 'empty'):
            js.append({'name': '%s prefix-less %s + following lines, hand-written t.tmp' % (hist, f), 'harness': (H, 'h_clean'),
                       'params': {'nlines': 3 if f != 'temp' else 2, 'menu_name': 'indent', 'fixed': [f], 'history': hist, 'pre_temp_len': 2},
                       'split': 4})
    # the mode / options the binary hands to the library for every flag combination (real main() from the bin crate's MIR)
    for sub in ('Clean',):
        js.append({'name': 'cli: options passed to the run for sub-command %s x all flags' % sub, 'harness': ('props.c17', 'h_cli'),
                   'mir': ('lib', 'bin'), 'params': {'sub': sub, 'txtpp_file': None}})
    from . import project
    js += project.jobs('C07', tier)
    return js


BOUNDS = {'quick': 'sources of 1-3 lines over the small menu (incl. erroneous directives, prefix-less multi-line, .txtpp temp target, empty temp), '
                   'histories build->clean, clean alone, build->clean->clean; decoy files next to the source and at near-miss names',
          'thorough': 'all 2-line sources for all histories, 3-line sources with every directive before/after a temp directive, LF and CRLF'}
from . import project as _project
BOUNDS = {k: v + _project.bounds_note('C07', k) for k, v in BOUNDS.items()}
ASSUMPTIONS = ['D1-D12; temp targets are regular files in the source directory', '"never runs a command": no std::process::Command is constructed (process model)']
COVERS_REQUIRED = ['clean_after_build_ok', 'clean_after_build_failed', 'clean_after_nothing']


def replay_rmout(v):
    """build, remove the output by hand, clean: the temp file must be gone"""
    import os, shutil, subprocess
    d = v['data']
    model = d['model']
    root, work, bind, res = ppreplay.materialise(d, model)
    cli = ppreplay.cli_path()
    e = dict(os.environ)
    e['PATH'] = bind + ':' + e.get('PATH', '')
    e.pop('TXTPP_FILE', None)
    r1 = subprocess.run([cli, '-q', '-j', '1', '-s', os.path.join(bind, 'recsh') + ' -c', 'a.txt.txtpp'], cwd=work, env=e, capture_output=True)
    had_temp = os.path.exists(os.path.join(work, 't.tmp'))
    if os.path.exists(os.path.join(work, 'a.txt')):
        os.remove(os.path.join(work, 'a.txt'))
    r2 = subprocess.run([cli, 'clean', '-q', '-j', '1', 'a.txt.txtpp'], cwd=work, env=e, capture_output=True)
    left = sorted(os.listdir(work))
    shutil.rmtree(root, ignore_errors=True)
    bad = r1.returncode == 0 and had_temp and ('t.tmp' in left or r2.returncode != 0)
    return bad, {'source': repr(ppreplay.conc(d['source'], model)), 'build_rc': r1.returncode, 'temp file after build': had_temp,
                 'clean_rc': r2.returncode, 'left after clean': left}


def replay(native, v):
    d = v['data']
    hist = d.get('history', 'build-clean')
    if hist == 'build-rmout-clean':
        return replay_rmout(v)
    steps = {'build-clean': [((), True), (('clean',), True)], 'clean': [(('clean',), True)],
             'build-clean-clean': [((), True), (('clean',), True), (('clean',), True)]}[hist]

    def judge(res, spec, env, d, model):
        build = res[0] if hist != 'clean' else None
        bad = False
        for r in res[(1 if build else 0):]:
            if r['rc'] != 0:
                bad = True
            src = ppreplay.conc(d['source'], model)
            targets = [bytes(t) for t in specpp.temp_targets_all(ConcreteCtx(), tuple(src))]
            named = b't.tmp' in targets
            hand = ppreplay.conc(d['pre_temp'], model) if d.get('pre_temp') not in (None, 'DIR') else None
            if d.get('pre_temp') == 'DIR' and 't.tmp' not in r['listing']:
                bad = True              # the directory at the temp target was removed
            if build is None or build['rc'] == 0:
                if r['output'] is not None or (r['temp'] is not None and (hand is None or named)):
                    bad = True
            if hand is not None and not named and b't.tmp' not in [bytes(a) for a in env.temps]:
                if r['temp'] != hand:
                    bad = True              # a hand-written file that no valid temp directive names was deleted / changed
            if 'a.txt.txtpp' not in r['listing'] or 'f' not in r['listing']:
                bad = True
            for name, _ in d.get('extra_files', []):
                if name.startswith('/w/d/') and name[len('/w/d/'):] not in r['listing']:
                    bad = True          # an unrelated file (decoy / txtpp-named file) next to the source was deleted
        return bad
    return replay_fs(v, steps, judge)
