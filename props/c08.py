"""C08 Builds are a function of the sources only (hermetic, idempotent).

2-safety by self-composition on the real code: `preprocess` in Build mode from a fully symbolic pre-state of every
generated path (absent / arbitrary bytes incl. invalid UTF-8, any length within the bound) versus the same build from a
clean tree: same verdict, same output bytes, same temp bytes.  An interrupted or crashed build is one such pre-state.
"""
from .fsprops import *

H = 'props.fsprops'


def jobs(tier):
    js = []
    quick = tier == 'quick'
    lens = [0, 1, 2, 3] if quick else [0, 1, 2, 3, 4, 5, 6]
    scen = [['temp', 'cont prefix'], ['temp'], ['temp', 'cont bare'], ['write'], ['include f'], ['run'], ['text'],
            ['temp', 'cont prefix', 'cont prefix']]
    for sc in scen:
        for pl in lens:
            js.append({'name': 'pre_temp=%d %s' % (pl, '/'.join(sc)), 'harness': (H, 'h_hermetic'),
                       'params': {'nlines': len(sc), 'menu_name': 'small', 'fixed': sc, 'pre_temp_len': pl, 'pre_out_len': None}})
            js.append({'name': 'pre_out=%d %s' % (pl, '/'.join(sc)), 'harness': (H, 'h_hermetic'),
                       'params': {'nlines': len(sc), 'menu_name': 'small', 'fixed': sc, 'pre_out_len': pl, 'pre_temp_len': None}})
    for f in (['temp', 'run', 'tag A', 'include f'] if quick else [n for n, _ in menu('small')]):
        js.append({'name': '2 lines first=%s, both pre-states 2 bytes' % f, 'harness': (H, 'h_hermetic'),
                   'params': {'nlines': 2, 'menu_name': 'small', 'fixed': [f], 'pre_out_len': 2, 'pre_temp_len': 2}})
    # the only-if-needed option is an option of build: from any pre-state (in particular: the fresh output followed by stale bytes,
    # the fresh output cut short) it must leave what a build from a clean tree leaves
    for sc in (['text'], ['write'], ['include f'], ['run'], ['text', 'text'], ['include f', 'empty'], ['run', 'empty'], ['temp'], ['empty'],
               ['text', 'temp']):
        for pl in ((0, 2, 3, 4, 5) if quick else (0, 1, 2, 3, 4, 5, 6, 7)):
            js.append({'name': '--needed pre_out=%d %s' % (pl, '/'.join(sc)), 'harness': (H, 'h_hermetic'),
                       'params': {'nlines': len(sc), 'menu_name': 'small', 'fixed': sc, 'pre_out_len': pl, 'pre_temp_len': None,
                                  'mode_a': 'InMemoryBuild', 'mode_b': 'Build', 'inc_len': 1}})
    # an include of X with a stale / truncated X on disk: X is rebuilt from X's .txtpp source first (dependency is reported)
    for shape in range(len(DEP_SHAPES)):
        for kind in ('include', 'after'):
            for mode in ('Build', 'InMemoryBuild'):
                js.append({'name': 'stale dependency output shape=%d %s %s' % (shape, kind, mode), 'harness': (H, 'h_deps'),
                           'params': {'mode': mode, 'shape': shape, 'kind': kind, 'stale_output': True}})
    # whole tree, built twice by the real coordinator + real preprocess: second build == first build
    for wb in (False, True):
        js.append({'name': 'tree built twice (txtpp-shaped temp target=%s)' % wb, 'harness': (H, 'h_tree'),
                   'params': {'mode': 'Build', 'second_mode': 'Build', 'inputs': ['.'], 'recursive': True, 'with_bad_temp': wb, 'compare_runs': True},
                   'max_steps': 6_000_000})
    from . import project
    js += project.jobs('C08', tier)
    return js


BOUNDS = {'quick': '8 source scenarios + 2-line sources; pre-existing output / temp file absent or ANY bytes (0-255, so also invalid UTF-8 and '
                   'truncations inside a multi-byte character) of length 0-3',
          'thorough': 'pre-states of length 0-6, all 2-line sources'}
from . import project as _project
BOUNDS = {k: v + _project.bounds_note('C08', k) for k, v in BOUNDS.items()}
ASSUMPTIONS = ['D1-D12; generated paths hold regular files or nothing (no directories / symlinks)',
               'SIGKILL at any point is over-approximated by "arbitrary content of the generated paths"; real signal delivery is not modelled']
COVERS_REQUIRED = ['both_ok', 'both_fail', 'temp', 'deps_reported_Build', 'tree_twice']


def finding_key(v, detail):
    pt = detail.get('pre_temp')
    runs = detail.get('runs', [])
    if pt is not None and len(runs) == 2 and runs[0]['rc'] != 0 and runs[1]['rc'] == 0:
        try:
            eval(pt).decode('utf8')
        except UnicodeDecodeError:
            return 'stale-nonutf8-temp'
    return None


def replay(native, v):
    d = v['data']
    if d['op'] == 'deps':
        return replay_deps(v)
    if d['op'] == 'tree':
        return replay_tree(v)
    model = d['model']
    a = ppreplay.run_native_history(d, model, [(MODE_ARGS[d.get('mode_a', 'Build')], True)])[0]
    d2 = dict(d, pre_out=None, pre_temp=None) if d.get('clean_b', True) else d
    b = ppreplay.run_native_history(d2, model, [(MODE_ARGS[d.get('mode_b', 'Build')], True)])[0]
    detail = {'source': repr(ppreplay.conc(d['source'], model)), 'included f': repr(ppreplay.conc(d['inc'], model)),
              'pre_out': repr(ppreplay.conc(d['pre_out'], model)) if d.get('pre_out') is not None else None,
              'pre_temp': repr(ppreplay.conc(d['pre_temp'], model)) if d.get('pre_temp') is not None else None,
              'mode_a': d.get('mode_a', 'Build'), 'mode_b': d.get('mode_b', 'Build'),
              'runs': [{'rc': r['rc'], 'output': repr(r['output']), 'temp': repr(r['temp'])} for r in (a, b)]}
    bad = (a['rc'] == 0) != (b['rc'] == 0) or (a['rc'] == 0 and (a['output'] != b['output'] or a['temp'] != b['temp']))
    return bad, detail
