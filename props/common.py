"""Shared helpers for property harnesses."""
import json
import os
import subprocess
import sys

from lib import build
from mirsym.core import t_bytes_eq, t_eq, Violation, is_sym
from mirsym.values import *

ASCII_LINE = [c for c in range(0, 128) if c not in (10, 13)]       # any ASCII byte a source line can hold (D1)
ASCII_ALL = list(range(0, 128))


class ConcreteCtx:
    """runs spec functions on concrete bytes"""
    def branch(self, c, label=''):
        if not isinstance(c, bool):
            raise ValueError("symbolic condition in concrete context: %r" % (c,))
        return c

    def choose(self, n, label=''):
        return 0


def check_bytes_equal(ctx, impl, spec, what, data):
    """assert two (possibly symbolic) byte tuples are equal on every assignment of the path"""
    if len(impl) != len(spec):
        d = dict(data)
        d['impl'] = show_bytes(impl)
        d['spec'] = show_bytes(spec)
        d['model'] = ctx.model()
        raise Violation(what + ' (length differs)', d)
    d = dict(data)
    d['impl'] = show_bytes(impl)
    d['spec'] = show_bytes(spec)
    ctx.check_holds(t_bytes_eq(tuple(impl), tuple(spec)), what, d)


def violation(ctx, what, data):
    d = dict(data)
    d['model'] = ctx.model()
    raise Violation(what, d)


def concretize(bs, model):
    return bytes(b if isinstance(b, int) else model[b[1]] for b in bs)


def hexs(b):
    return b.hex() if b else '-'


def unhex(s):
    return b'' if s == '-' else bytes.fromhex(s)


class Native:
    """line-protocol client of the native replay helper (real compiled txtpp, no stubs)"""

    def __init__(self, release=False):
        repo = build.copy_repo()
        self.paths = build.build_native(repo, release=release)
        self.p = subprocess.Popen([self.paths['replay']], stdin=subprocess.PIPE, stdout=subprocess.PIPE, text=True)

    def ask(self, line):
        self.p.stdin.write(line + '\n')
        self.p.stdin.flush()
        return self.p.stdout.readline().strip()

    def close(self):
        try:
            self.p.stdin.close()
            self.p.wait(timeout=5)
        except Exception:
            self.p.kill()


def directive_of(it, v):
    """Option<Directive> value -> None | (ws, prefix, type, [args])"""
    if v.idx == 0:
        return None
    return directive_struct(it, v.f[0])


def directive_struct(it, d):
    return (d.f[0].b, d.f[1].b, d.f[2].vname, [a.b for a in d.f[3].e])


# ----------------------------------------------------------------------------- native validation of sampled paths
# A harness may leave in ctx.notes['native_check'] a description of what the natively compiled code must answer on the
# sampled path: tokens are str (literal) or lists of byte terms (ints / symbol names) that are concretised with the
# path's solver model.  `./check` replays up to a handful of samples per run (evidence: traces_validated_against_impl).

def nc_tokens(*toks):
    out = []
    for t in toks:
        if isinstance(t, str):
            out.append(t)
        else:
            out.append([b if isinstance(b, int) else b[1] for b in t])
    return out


def _conc_tokens(tokens, model):
    out = []
    for t in tokens:
        if isinstance(t, str):
            out.append(t)
        else:
            bs = bytes(x if isinstance(x, int) else _lookup(model, x) for x in t)
            out.append(hexs(bs))
    return ' '.join(out)


def _lookup(model, name):
    # models in samples are printable strings grouped by base name: name = base_idx
    base, _, idx = name.rpartition('_')
    v = model.get(base)
    if v is None:
        raise KeyError(name)
    return ord(v[int(idx)])


def validate_line_samples(native, samples):
    ok_n = 0
    bad = []
    for smp in samples:
        nc = (smp.get('notes') or {}).get('native_check')
        if not nc:
            continue
        try:
            if nc['kind'] == 'line':
                req = _conc_tokens(nc['request'], smp['model'])
                exp = _conc_tokens(nc['expect'], smp['model'])
                got = native.ask(req)
                if got == exp:
                    ok_n += 1
                else:
                    bad.append('%s -> native %s, interpreter %s' % (req, got, exp))
        except KeyError:
            continue
    return ok_n, bad
