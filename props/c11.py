"""C11 Exactly the requested sources are processed and outputs are named correctly.

(1) names: real is_txtpp_file / remove_txtpp / get_txtpp_file (MIR + Path models) on symbolic file names over an alphabet
    that spells `txtpp`, dots, slashes and other letters, against the naming rules (three shapes; look-alikes rejected;
    remove_txtpp(get_txtpp_file(x)) == x), with a symbolic "which candidate files exist" oracle in the FS model;
(2) selection: real Txtpp::run (resolve_inputs, scan_dir, execute_directory, execute_file dedup) under the scheduler model on
    symbolic directory trees (each candidate entry present or not), input lists with both name forms, ./ ../ and absolute
    spellings, duplicates, missing targets, recursion on/off, base directory different from the process cwd: the set of
    processed sources must be exactly the specified one.
"""
from mirsym.core import Violation, t_in, t_not
from mirsym.interp import Interp
from mirsym.models_env import Env
from mirsym.values import *
from spec import names as specnames
from .common import *
from . import sched

NAME_ALPHA = [ord(c) for c in 'a.txp']


def h_names(m, ctx, n, with_dir=False):
    it = Interp(m, ctx)
    env = Env(it, cwd=b'/w')
    it.env = env
    name = ctx.fresh_bytes('p', n, NAME_ALPHA)
    if n:
        # D9: the shapes foo.ext.txtpp / foo.txtpp.ext have a non-empty ext; a name ending in '.' (empty extension) is outside
        from mirsym.core import t_eq
        ctx.assume(t_not(t_eq(name[-1], 46)))
        # ... and so are names with an empty dot-separated component (`x..txtpp.a`, `..txtpp.p`): D9
        from mirsym.core import t_and
        for i in range(n - 1):
            ctx.assume(t_not(t_and(t_eq(name[i], 46), t_eq(name[i + 1], 46))))
    path = (tuple(b'dir.x/') if with_dir else ()) + name
    cell = it.alloc(StrV(path))
    data = {'op': 'names', 'name': syms_of(path)}
    is_t = it.call_mir(m.lookup_def('PathBuf', 'TxtppPath', None, 'is_txtpp_file'), [RefV(cell)])
    want = specnames.is_txtpp_name(ctx, path)
    if bool(is_t) != want:
        violation(ctx, 'is_txtpp_file differs from the naming rules (impl %s, rules %s)' % (bool(is_t), want), data)
    r = it.call_mir(m.lookup_def('PathBuf', 'TxtppPath', None, 'remove_txtpp'), [RefV(cell)])
    wo = specnames.output_name(ctx, path)
    if (r.idx == 0) != (wo is not None):
        violation(ctx, 'remove_txtpp accepts/rejects differently from the naming rules', data)
    ctx.notes['native_check'] = {'kind': 'line', 'request': nc_tokens('is_txtpp_file', path), 'expect': nc_tokens('true' if bool(is_t) else 'false')}
    if wo is not None:
        ctx.cover('txtpp_name')
        check_bytes_equal(ctx, r.f[0].b, wo, 'output name differs from the naming rules', data)
    else:
        ctx.cover('other_name')


def syms_of(bs):
    return [b if isinstance(b, int) else b[1] for b in bs]


def h_get(m, ctx, n, ext_n, dotted=False):
    """get_txtpp_file(x): x = stem[.ext]; candidates x.ext.txtpp / x.txtpp.ext / x.txtpp exist or not (fork)"""
    it = Interp(m, ctx)
    env = Env(it, cwd=b'/w')
    it.env = env
    env.add_dir(b'/w')
    stem = ctx.fresh_bytes('s', n, [97, 120, 46] if dotted else [97, 120])
    if dotted:
        # D9: no empty dot-separated component (no leading / trailing / doubled dot)
        from mirsym.core import t_eq, t_not, t_or
        ctx.assume(t_not(t_eq(stem[0], 46)))
        ctx.assume(t_not(t_eq(stem[-1], 46)))
        for a, b in zip(stem, stem[1:]):
            ctx.assume(t_or(t_not(t_eq(a, 46)), t_not(t_eq(b, 46))))
    ext = ctx.fresh_bytes('e', ext_n, [97, 116, 120, 112])          # may spell txtpp when ext_n == 5
    x = tuple(b'/w/') + stem + ((46,) + ext if ext_n else ())
    c1 = x + tuple(b'.txtpp')                                      # foo.ext.txtpp  /  foo.txtpp
    c2 = tuple(b'/w/') + stem + tuple(b'.txtpp') + ((46,) + ext if ext_n else ())
    have1 = ctx.choose(2, 'have1') == 1
    have2 = ext_n > 0 and ctx.choose(2, 'have2') == 1
    if have1:
        env.add_file(c1, b'')
    if have2:
        env.add_file(c2, b'')
    cell = it.alloc(StrV(x))
    data = {'op': 'get', 'x': syms_of(x), 'have_ext_txtpp': have1, 'have_txtpp_ext': have2}
    r = it.call_mir(m.lookup_def('PathBuf', 'TxtppPath', None, 'get_txtpp_file'), [RefV(cell)])
    if specnames.is_txtpp_name(ctx, x):
        if r.idx != 0:
            violation(ctx, 'get_txtpp_file returned a source for a name that is itself a txtpp source name', data)
        return
    want = c1 if have1 else c2 if have2 else None
    if (r.idx == 1) != (want is not None):
        violation(ctx, 'get_txtpp_file: found=%s, expected %s' % (r.idx == 1, want is not None), data)
    if want is not None:
        ctx.cover('source_found')
        check_bytes_equal(ctx, r.f[0].b, want, 'get_txtpp_file returned the wrong source', data)
        # round trip
        c = it.alloc(r.f[0])
        back = it.call_mir(m.lookup_def('PathBuf', 'TxtppPath', None, 'remove_txtpp'), [RefV(c)])
        if back.idx != 0:
            violation(ctx, 'remove_txtpp(get_txtpp_file(x)) failed', data)
        check_bytes_equal(ctx, back.f[0].b, x, 'remove_txtpp(get_txtpp_file(x)) != x', data)


# ---- selection
CANDIDATES = [('a.txt.txtpp', 'src'), ('b.txtpp.md', 'src'), ('c.txtpp', 'src'), ('txtpp', 'no'), ('.txtpp', 'no'), ('a.txtpp.b.c', 'no'),
              ('plain.txt', 'no'), ('.txtpp.cfg', 'no')]
SUBCAND = [('sub/n.txtpp', 'src'), ('sub/deep/m.md.txtpp', 'src'), ('sub/x.txt', 'no')]


class SelWorld(sched.World):
    def __init__(self, m, ctx, inputs, recursive, mode):
        super().__init__(m, ctx, 0, inputs, acyclic_only=True, allow_self=False, mode=mode)
        self.recursive = recursive
        self.seen = []

    def index_of(self, abspath):
        p = bytes(abspath.f[1].b)
        parts = []
        for c in p.split(b'/'):
            if c in (b'', b'.'):
                continue
            if c == b'..':
                if parts:
                    parts.pop()
                continue
            parts.append(c)
        p = b'/' + b'/'.join(parts)            # the same file under another spelling is the same source
        if p not in self.seen:
            self.seen.append(p)
        return self.seen.index(p)

    def choose_deps(self, i):
        self.deps[i] = []
        return []

    def data(self):
        return {'op': 'select', 'inputs': list(self.inputs), 'recursive': self.recursive, 'present': list(getattr(self, 'present', [])),
                'processed': sorted(p[len(b'/w/'):].decode() for p in self.seen), 'mode': self.mode, 'cwd': getattr(self, 'cwd', '/w'),
                'base': getattr(self, 'base', '/w')}


def h_select(m, ctx, inputs, recursive, mode='Build', cwd=b'/w', base=b'/w', expect=None):
    it = Interp(m, ctx)
    env = Env(it, cwd=cwd)
    it.env = env
    env.add_dir(b'/w')
    env.add_dir(b'/w/sub/deep')
    env.add_dir(cwd)
    present = []
    for name, kind in CANDIDATES + SUBCAND:
        if ctx.choose(2, 'have:' + name) == 1:
            env.add_file(b'/w/' + name.encode(), b'x')
            present.append(name)
    env.add_file(b'/bin/sh', b'')
    env.sched_policy = 'fifo'          # which sources are selected does not depend on the completion order (that is C03)
    w = SelWorld(m, ctx, inputs, recursive, mode)
    w.present, w.cwd, w.base = present, cwd.decode(), base.decode()
    it.overrides[(None, 'preprocess')] = w.preprocess
    cfg = sched.mk_config(m, inputs, mode, recursive)
    cfg = StructV('Config', (StrV(tuple(base)),) + cfg.f[1:])
    r = it.call_mir(m.find_method('Txtpp', 'run'), [cfg])
    ok_ = (r.idx == 0)
    processed = sorted(p[len(b'/w/'):].decode() for p in w.seen)
    data = {'op': 'select', 'inputs': list(inputs), 'recursive': recursive, 'present': present, 'processed': processed, 'mode': mode,
            'cwd': cwd.decode(), 'base': base.decode(), 'result': 'Ok' if ok_ else 'Err'}
    # specification of the processed set
    srcs = {n for n, k in CANDIDATES + SUBCAND if k == 'src' and n in present}
    want = set()
    err_expected = False
    for inp in inputs:
        s = inp
        # resolve relative to base (/w): normalise ./ and ../w
        parts = []
        absolute = s.startswith('/')
        for c in (s if absolute else '/w/' + s).split('/'):
            if c in ('', '.'):
                continue
            if c == '..':
                if parts:
                    parts.pop()
                continue
            parts.append(c)
        full = '/' + '/'.join(parts)
        rel = full[len('/w/'):] if full.startswith('/w/') else ('' if full == '/w' else None)
        if rel is None:
            err_expected = True
            continue
        if rel in ('', 'sub', 'sub/deep'):
            pre = rel + '/' if rel else ''
            for n in srcs:
                if n.startswith(pre):
                    rest = n[len(pre):]
                    if '/' not in rest or recursive:
                        want.add(n)
            continue
        # a file: by source name or by output name
        if rel in srcs:
            want.add(rel)
            continue
        cands = [n for n in srcs if _out_name(n) == rel]
        # an input that is itself txtpp-shaped must exist
        if _is_txtpp_shape(rel):
            err_expected = True
            continue
        if cands:
            # .ext.txtpp form is preferred over .txtpp.ext
            cands.sort(key=lambda n: (0 if n.endswith('.txtpp') else 1))
            want.add(cands[0])
        else:
            err_expected = True
    if err_expected:
        ctx.cover('missing_target')
        if ok_:
            violation(ctx, 'a named target without source did not fail the run', data)
        return
    if not ok_:
        violation(ctx, 'run failed although every named target exists', data)
    ctx.cover('selection_ok')
    if sorted(want) != processed:
        violation(ctx, 'processed sources %s, expected %s' % (processed, sorted(want)), data)
    for i, c in w.final.items():
        if c != 1:
            violation(ctx, 'source %s processed %d times' % (w.seen[i], c), data)


def _is_txtpp_shape(n):
    b = n.split('/')[-1]
    parts = b.split('.')
    if len(parts) >= 2 and parts[-1] == 'txtpp' and not (len(parts) == 2 and parts[0] == ''):
        return True
    if len(parts) >= 3 and parts[-2] == 'txtpp' and not (len(parts) == 3 and parts[0] == ''):
        return True
    return False


def _out_name(n):
    d, _, b = n.rpartition('/')
    parts = b.split('.')
    if parts[-1] == 'txtpp':
        o = '.'.join(parts[:-1])
    elif len(parts) >= 3 and parts[-2] == 'txtpp':
        o = '.'.join(parts[:-2] + parts[-1:])
    else:
        return None
    return (d + '/' if d else '') + o


H = 'props.c11'
validate_samples = validate_line_samples


def jobs(tier):
    js = []
    quick = tier == 'quick'
    for n in (range(0, 13) if quick else range(0, 16)):
        js.append({'name': 'names n=%d' % n, 'harness': (H, 'h_names'), 'params': {'n': n}, 'split': 8 if n >= 9 else 1})
    js.append({'name': 'names in dotted dir n=9', 'harness': (H, 'h_names'), 'params': {'n': 9, 'with_dir': True}, 'split': 8})
    for n in (1, 2):
        for en in (0, 1, 2, 5):
            js.append({'name': 'get_txtpp_file stem=%d ext=%d' % (n, en), 'harness': (H, 'h_get'), 'params': {'n': n, 'ext_n': en}})
    for n in ((3, 4) if quick else (3, 4, 5, 6)):
        for en in (0, 1, 2, 5):
            js.append({'name': 'get_txtpp_file dotted stem=%d ext=%d' % (n, en), 'harness': (H, 'h_get'), 'params': {'n': n, 'ext_n': en, 'dotted': True}})
    sel = [(['.'], False), (['.'], True), (['a.txt'], False), (['a.txt.txtpp', './a.txt', 'a.txt'], False), (['b.md', 'c'], False),
           (['missing.txt'], False), (['sub'], False), (['sub', '.'], True), (['../w'], True), (['/w', 'sub/../a.txt'], False),
           (['c.txtpp', 'sub/n'], False), (['plain.txt'], False), (['txtpp'], False), (['.txtpp'], False)]
    for inp, rec in sel:
        js.append({'name': 'select %s recursive=%s' % (','.join(inp), rec), 'harness': (H, 'h_select'),
                   'params': {'inputs': inp, 'recursive': rec}, 'split': 16, 'max_steps': 6_000_000})
    js.append({'name': 'select base != process cwd', 'harness': (H, 'h_select'),
               'params': {'inputs': ['.', 'a.txt'], 'recursive': True, 'cwd': b'/other', 'base': b'/w'}, 'split': 16})
    js.append({'name': 'select relative base', 'harness': (H, 'h_select'),
               'params': {'inputs': ['sub', 'b.md'], 'recursive': False, 'cwd': b'/', 'base': b'w'}, 'split': 16})
    for mode in ('Clean', 'Verify'):
        js.append({'name': 'select mode=%s' % mode, 'harness': (H, 'h_select'), 'params': {'inputs': ['.', 'c'], 'recursive': False, 'mode': mode}, 'split': 16})
    from . import project
    js += project.jobs('C11', tier)
    return js


BOUNDS = {'quick': 'names: every file name of 0-12 bytes over {a . t x p} (spells txtpp, hidden files, multiple dots) also inside a dotted directory; '
                   'get_txtpp_file: stems 1-2 bytes and dotted stems of 3-4 bytes (a.x, a.a.x ...), extensions 0/1/2/5 bytes (incl. `txtpp`), both candidate sources present or not; selection: '
                   'every subset of 11 candidate entries (3 source shapes, 5 look-alikes, nested sub-directories) x 18 input lists x recursion',
          'thorough': 'names up to 15 bytes'}
from . import project as _project
BOUNDS = {k: v + _project.bounds_note('C11', k) for k, v in BOUNDS.items()}
ASSUMPTIONS = ['D9: a source whose own extension is `txtpp` twice (x.txtpp.txtpp) is outside the domain (its output is again a txtpp name)',
               'symbolic links only in the project layouts `links` / `links-ok`; read_dir lists exactly the entries of the FS model (order irrelevant: each file is a separate task)',
               'dependencies are added by the coordinator (C02); here sources have none']
COVERS_REQUIRED = ['txtpp_name', 'other_name', 'source_found', 'selection_ok', 'missing_target']


def replay(native, v):
    d = v['data']
    model = d.get('model', {})
    if d['op'] == 'names':
        name = bytes(x if isinstance(x, int) else model[x] for x in d['name'])
        cc = ConcreteCtx()
        a = native.ask('is_txtpp_file ' + hexs(name))
        b = native.ask('remove_txtpp ' + hexs(name))
        want = specnames.is_txtpp_name(cc, tuple(name))
        wo = specnames.output_name(cc, tuple(name))
        exp_b = 'ERR' if wo is None else 'OK ' + hexs(bytes(wo))
        return (a != ('true' if want else 'false') or b != exp_b), {'name': repr(name), 'is_txtpp_file': a, 'remove_txtpp': b, 'expected': [want, exp_b]}
    if d['op'] == 'get':
        import os, tempfile, shutil
        from lib import build
        x = bytes(v_ if isinstance(v_, int) else model[v_] for v_ in d['x'])
        root = tempfile.mkdtemp(prefix='replay-get-', dir=build.scratch_dir())
        rel = x[len(b'/w/'):].decode()
        stem, dot, ext = rel.partition('.')
        c1 = rel + '.txtpp'
        c2 = stem + '.txtpp' + (dot + ext if dot else '')
        if d['have_ext_txtpp']:
            open(os.path.join(root, c1), 'w').close()
        if d['have_txtpp_ext'] and dot:
            open(os.path.join(root, c2), 'w').close()
        out = native.ask('get_txtpp_file ' + hexs(os.path.join(root, rel).encode()))
        cc = ConcreteCtx()
        if specnames.is_txtpp_name(cc, tuple(x)):
            want = 'NONE'
        elif d['have_ext_txtpp']:
            want = 'SOME ' + hexs(os.path.join(root, c1).encode())
        elif d['have_txtpp_ext'] and dot:
            want = 'SOME ' + hexs(os.path.join(root, c2).encode())
        else:
            want = 'NONE'
        shutil.rmtree(root, ignore_errors=True)
        return out != want, {'x': rel, 'native': out, 'expected': want}
    # selection: real tree, each source appends its own name to a log
    import os, tempfile, shutil, subprocess
    from lib import build
    from . import ppreplay
    root = tempfile.mkdtemp(prefix='replay-sel-', dir=build.scratch_dir())
    w = os.path.join(root, 'w')
    os.makedirs(os.path.join(w, 'sub', 'deep'))
    os.makedirs(os.path.join(root, 'other'))
    for n in d['present']:
        p = os.path.join(w, n)
        kind = dict(CANDIDATES + SUBCAND)[n]
        open(p, 'w').write('-TXTPP#run echo %s >> %s/log\nx\n' % (n, root) if kind == 'src' else 'x\n')
    cwd = root + d['cwd'] if d['cwd'] != '/' else root
    base = d['base'] if not d['base'].startswith('/') else root + d['base']
    req = 'txtpp %s %s %s 2 1 %d - %s' % (hexs(cwd.encode()), hexs(base.encode()), 'Build', 1 if d['recursive'] else 0,
                                           ' '.join(hexs((root + i if i.startswith('/') else i).encode()) for i in d['inputs']))
    out = native.ask(req)
    log = sorted(open(os.path.join(root, 'log')).read().split()) if os.path.exists(os.path.join(root, 'log')) else []
    shutil.rmtree(root, ignore_errors=True)
    detail = {'present': d['present'], 'inputs': d['inputs'], 'recursive': d['recursive'], 'native_result': out, 'native_processed': log,
              'model_processed': d['processed']}
    msg = v['msg']
    if 'did not fail' in msg:
        return out == 'OK', detail
    if 'run failed' in msg:
        return out != 'OK', detail
    m_ = __import__('re').search(r"expected (\[.*\])$", msg)
    if m_:
        want = sorted(eval(m_.group(1)))
        return log != want, dict(detail, expected=want)
    if ('processed' in msg and 'times' in msg) or 'twice' in msg:
        return len(log) != len(set(log)), detail
    return False, detail
