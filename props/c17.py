"""C17 run commands execute in the source's directory with the documented contract.

(a) real `preprocess` -> execute_directive(Run) -> Shell::run (and Shell::new for overridden shells) from MIR with the
    process model recording program, arguments, working directory and environment, for sources at depth 0..3 below the
    base directory and a process cwd equal to / ancestor of / unrelated to the base directory;
(b) real `main` (bin MIR): TXTPP_FILE guard before anything else, flag -> Config mapping (-N, -n, -j, -r, subcommands),
    Err => ExitCode::FAILURE; clap's parser is replaced by an arbitrary parsed `Cli` value (symbolic flags).
"""
from mirsym.core import Violation, t_eq
from mirsym.interp import Interp, BoolT
from mirsym.models_env import Env, normalize_abs, comps_to_bytes
from mirsym.values import *
from .common import *
from .ppgen import SymEnv, run_preprocess, syms_of, mode_val

MIR_KINDS = ('lib', 'bin')

BASES = [b'/p/base', b'/base']
CWDS = {'equal': None, 'ancestor': b'/p', 'unrelated': b'/other/place', 'root': b'/'}


def h_run(m, ctx, depth, cwd_kind, shell_cmd=b'', ncont=1, exit_code=None, mode='Build', base=b'/p/base', empty_cont=None, srcdir_abs=None, rel_path_shell=False, decoy_sh=False):
    it = Interp(m, ctx)
    cwd = CWDS[cwd_kind] or base
    subdirs = [b's1', b's2', b's3'][:depth]
    srcdir = srcdir_abs if srcdir_abs is not None else base + b''.join(b'/' + s for s in subdirs)
    src = srcdir + b'/a.txt.txtpp'
    # command: first line + continuation lines with symbolic bytes (printable, no blanks at the end: rtrim is C15)
    PRN = [c for c in range(33, 127)]
    first = ctx.fresh_bytes('c', 2, PRN)
    conts = [ctx.fresh_bytes('k%d' % i, 2, PRN + [32]) if i != empty_cont else () for i in range(ncont)]
    lines = [tuple(b'-TXTPP#run ') + first] + [tuple(b'-') + c for c in conts]
    from mirsym.core import t_in, t_not
    for c in conts:
        if c:
            ctx.assume(t_not(t_in(c[-1], frozenset([32]))))
    source = []
    for l in lines:
        source.extend(l)
        source.append(10)
    source = tuple(source)
    env = Env(it, cwd=cwd)
    it.env = env
    env.add_dir(cwd)
    env.add_dir(srcdir)
    env.add_file(src, source)
    env.add_file(b'/bin/sh', b'')
    env.add_file(b'/usr/bin/bash', b'')
    if decoy_sh:
        # entries of the process working directory that merely have the shell's name: the shell is looked up in $PATH, not there
        env.add_dir(cwd.rstrip(b'/') + b'/sh')
        env.add_file(cwd.rstrip(b'/') + b'/bash', b'#!/bin/sh\necho hijacked\n')
    if rel_path_shell:
        # a shell that is found through a relative $PATH entry (relative to the process cwd, as the OS resolves it)
        env.add_dir(cwd + b'/tools/bin')
        env.add_file(cwd.rstrip(b'/') + b'/tools/bin/mysh', b'')
        env.env_vars[b'PATH'] = b'tools/bin:/usr/bin:/bin'
    rec_box = []
    # exit status: 0, non-zero code, or killed by a signal (ExitStatus::code() == None, success() == false)
    code = exit_code if exit_code is not None else [0, 1, None][ctx.choose(3, 'exit')]
    outb = ctx.fresh_bytes('o', 2, [111, 10])

    def proc(it_, rec):
        rec_box.append(rec)
        return (code, outb, ())
    env.proc_handler = proc
    # shell: through the real Shell::new
    shell_new = m.find_method('Shell', 'new')
    sr = it.call_mir(shell_new, [StrV(tuple(shell_cmd))])
    data = {'op': 'run', 'depth': depth, 'cwd': cwd.decode(), 'base': base.decode(), 'src': src.decode(), 'shell_cmd': shell_cmd.decode(),
            'source': syms_of(source), 'exit': code, 'out': syms_of(outb), 'mode': mode, 'rel_path_shell': rel_path_shell, 'decoy_sh': decoy_sh}
    if sr.idx != 0:
        violation(ctx, 'Shell::new failed for an installed shell', data)
    shell = sr.f[0]
    pre = m.free['preprocess']
    f = StructV('AbsPath', (StrV(tuple(base)), StrV(tuple(src))))
    r = it.call_mir(pre, [RefV(it.alloc(shell)), RefV(it.alloc(f)), mode_val(m, mode), False, True])
    if mode == 'Clean':
        if rec_box:
            violation(ctx, 'clean ran a command', data)
        return
    if len(rec_box) != 1:
        violation(ctx, 'the run directive spawned %d processes' % len(rec_box), data)
    rec = rec_box[0]
    want_exe, want_args = (b'/bin/sh', [b'-c']) if not shell_cmd.strip() else (None, None)
    if shell_cmd.strip():
        parts = shell_cmd.split()
        want_exe = {b'sh': b'/bin/sh', b'bash': b'/usr/bin/bash', b'mysh': cwd.rstrip(b'/') + b'/tools/bin/mysh'}[parts[0]]
        want_args = parts[1:]
    # the program as the OS resolves it: a relative program path containing a separator is looked up relative to the
    # directory the child is started in (Command::current_dir applies first on Unix)
    child_dir = cwd if rec['cwd'] is None else bytes(comps_to_bytes(normalize_abs(it, rec['cwd'].b, cwd)))
    exe = bytes(rec['exe'].b)
    exe_abs = bytes(comps_to_bytes(normalize_abs(it, exe, child_dir)))
    if exe_abs != want_exe:
        violation(ctx, 'program %r started in %r is %r, expected the configured shell %r' % (exe, child_dir, exe_abs, want_exe), data)
    args = [a.b for a in rec['args']]
    if len(args) != len(want_args) + 1 or [bytes(a) for a in args[:-1]] != want_args:
        violation(ctx, 'shell arguments %r, expected %r + [command]' % (args[:-1], want_args), data)
    want_cmd = list(first)
    for c in conts:
        want_cmd.append(32)
        want_cmd.extend(c)
    check_bytes_equal(ctx, args[-1], tuple(want_cmd), 'command is not the argument lines joined by single spaces', data)
    # working directory: whatever was passed to current_dir, resolved against the process cwd, is the source's directory
    if rec['cwd'] is None:
        got_dir = normalize_abs(it, cwd, cwd)
    else:
        got_dir = normalize_abs(it, rec['cwd'].b, cwd)
    want_dir = normalize_abs(it, srcdir, cwd)
    if [bytes(c) for c in got_dir] != [bytes(c) for c in want_dir]:
        violation(ctx, 'command runs in %r instead of the directory of the source %r' % (comps_to_bytes(got_dir), srcdir),
                  dict(data, current_dir=repr(bytes(rec['cwd'].b)) if rec['cwd'] is not None else None))
    # TXTPP_FILE designates the source: absolute, or relative to the base directory
    envs = {bytes(k.b): v.b for k, v in rec['env']}
    tf = envs.get(b'TXTPP_FILE')
    if tf is None or len(tf) == 0:
        violation(ctx, 'TXTPP_FILE is not set for the command', data)
    got_file = normalize_abs(it, tf, base)
    if [bytes(c) for c in got_file] != [bytes(c) for c in normalize_abs(it, src, base)]:
        violation(ctx, 'TXTPP_FILE=%r does not designate the source %r' % (bytes(tf), src), data)
    ok_ = (r.idx == 0)
    if (code == 0) != ok_:
        violation(ctx, 'exit status %s but the build %s' % ('killed by signal' if code is None else code, 'succeeded' if ok_ else 'failed'), data)
    ctx.cover('run_depth%d_%s' % (depth, cwd_kind))
    if ok_:
        out = env.read_file(srcdir + b'/a.txt')
        from spec import pp as specpp
        want = specpp.fmt(ctx, (), outb, (10,))
        # stdout becomes the directive output (+ final newline rule at EOF)
        if len(out) < len(want):
            violation(ctx, 'stdout of the command is not in the output', data)
        check_bytes_equal(ctx, out[:len(want)], want, 'stdout of the command is not the directive output', data)


def flag(ctx, name):
    b = ctx.fresh_byte(name, [0, 1])
    return BoolT(t_eq(b, 1))


def h_cli(m, ctx, sub, txtpp_file):
    """real main(): sub in (None, 'Clean', 'Verify'); txtpp_file in (None, b'', b'x')"""
    it = Interp(m, ctx)
    env = Env(it, cwd=b'/w')
    it.env = env
    if txtpp_file is not None:
        env.env_vars[b'TXTPP_FILE'] = txtpp_file

    def conc(b, nm):
        return ctx.branch(b.t, nm)
    quiet, verbose, recursive, needed, ntn = [conc(flag(ctx, n), n) for n in ('quiet', 'verbose', 'recursive', 'needed', 'no_trailing_newline')]
    if quiet and verbose:
        return     # clap rejects -q with -v (conflicts_with)
    threads = [1, 4, 16][ctx.choose(3, 'threads')]
    inputs = VecV((str_of('in1'), str_of('dir')))
    flags = StructV('Flags', (quiet, verbose, recursive, threads, inputs))
    bflags = StructV('BuildFlags', (str_of('bash -c'), ntn))
    other_flags = StructV('Flags', (False, False, False, 9, VecV((str_of('WRONG'),))))
    other_b = StructV('BuildFlags', (str_of('WRONG'), False))
    cmds = ['Clean', 'Verify']
    if sub is None:
        subv = NONE
        top_flags, top_b = flags, bflags
    else:
        fields = (flags,) if sub == 'Clean' else (flags, bflags)
        subv = some(EnumV('Command', sub, cmds.index(sub), fields))
        top_flags, top_b = other_flags, other_b
    cli = StructV('Cli', (subv, top_flags, top_b, needed))
    called = []
    result_ok = ctx.choose(2, 'txtpp_result') == 0

    def m_parse(it_, argv, text):
        return cli

    def m_txtpp(it_, argv, text):
        called.append(argv[0])
        return ok(UNIT) if result_ok else err(OpaqueV('Report', ()))
    it.overrides[('Cli', 'parse')] = m_parse
    it.overrides[(None, 'txtpp')] = m_txtpp
    it.overrides[(None, 'init')] = lambda it_, argv, text: UNIT
    main = m.functions['main']
    r = it.call_mir(main, [])
    code = r.name if isinstance(r, FnV) else repr(r)
    data = {'op': 'cli', 'sub': sub, 'txtpp_file': txtpp_file.decode() if txtpp_file is not None else None, 'quiet': quiet, 'verbose': verbose,
            'recursive': recursive, 'needed': needed, 'no_trailing_newline': ntn, 'threads': threads, 'result_ok': result_ok, 'exit': code}
    if txtpp_file:
        ctx.cover('guard')
        if called or not code.endswith('FAILURE'):
            violation(ctx, 'txtpp started although TXTPP_FILE is set (recursion guard)', data)
        return
    if len(called) != 1:
        violation(ctx, 'main did not call txtpp exactly once', data)
    if code.endswith('SUCCESS') != result_ok:
        violation(ctx, 'exit code %s does not reflect the result of the run' % code, data)
    cfg = called[0]
    base_dir, shell_cmd, inp, rec_, nthreads, mode, verbosity, trailing = cfg.f
    want_mode = sub if sub else ('InMemoryBuild' if needed else 'Build')
    if mode.vname != want_mode:
        violation(ctx, 'mode is %s, expected %s' % (mode.vname, want_mode), data)
    ctx.cover('cli_' + want_mode)
    if sub != 'Clean':
        if trailing != (not ntn):
            violation(ctx, 'trailing_newline=%s although no_trailing_newline=%s' % (trailing, ntn), data)
        if bytes(shell_cmd.b) != b'bash -c':
            violation(ctx, 'shell option not passed to the run', data)
    if rec_ != recursive or nthreads != threads:
        violation(ctx, 'recursive / threads not passed to the run', data)
    if [bytes(x.b) for x in inp.e] != [b'in1', b'dir']:
        violation(ctx, 'inputs not passed to the run', data)
    wantv = 'Quiet' if quiet else 'Verbose' if verbose else 'Normal'
    if verbosity.vname != wantv:
        violation(ctx, 'verbosity %s, expected %s' % (verbosity.vname, wantv), data)


H = 'props.c17'


def jobs(tier):
    js = []
    quick = tier == 'quick'
    for depth in (0, 1, 2, 3):
        for ck in ('equal', 'ancestor', 'unrelated', 'root'):
            js.append({'name': 'run depth=%d cwd=%s' % (depth, ck), 'harness': (H, 'h_run'), 'mir': MIR_KINDS,
                       'params': {'depth': depth, 'cwd_kind': ck, 'ncont': 1 if quick else 2}})
    for sc in (b'bash -e -c', b'sh -c', b'  '):
        js.append({'name': 'run shell=%r' % sc, 'harness': (H, 'h_run'), 'mir': MIR_KINDS, 'params': {'depth': 1, 'cwd_kind': 'unrelated', 'shell_cmd': sc}})
    js.append({'name': 'run base=/base depth 2', 'harness': (H, 'h_run'), 'mir': MIR_KINDS, 'params': {'depth': 2, 'cwd_kind': 'root', 'base': b'/base'}})
    for ec in (0, 1):
        js.append({'name': 'run with an empty argument line at %d' % ec, 'harness': (H, 'h_run'), 'mir': MIR_KINDS,
                   'params': {'depth': 1, 'cwd_kind': 'equal', 'ncont': 2, 'empty_cont': ec}})
    # sources that are not below the base directory (named as ../sibling/x or by an absolute path): a sibling whose
    # name merely starts with the base directory's name, and an unrelated directory
    for sd in (b'/p/base-docs/s1', b'/p/base2', b'/q/s1', b'/p'):
        for ck in ('equal', 'unrelated'):
            js.append({'name': 'run source outside base: %s cwd=%s' % (sd.decode(), ck), 'harness': (H, 'h_run'), 'mir': MIR_KINDS,
                       'params': {'depth': 1, 'cwd_kind': ck, 'srcdir_abs': sd, 'exit_code': 0}})
    for depth in (0, 1, 2):
        js.append({'name': 'run shell found through a relative PATH entry depth=%d' % depth, 'harness': (H, 'h_run'), 'mir': MIR_KINDS,
                   'params': {'depth': depth, 'cwd_kind': 'equal', 'shell_cmd': b'mysh -c', 'rel_path_shell': True, 'exit_code': 0}})
    for sc in (b'', b'bash -c', b'sh -c'):
        for ck in ('equal', 'unrelated'):
            js.append({'name': 'run shell=%r with entries named sh / bash in the process cwd (%s)' % (sc, ck), 'harness': (H, 'h_run'), 'mir': MIR_KINDS,
                       'params': {'depth': 1, 'cwd_kind': ck, 'shell_cmd': sc, 'decoy_sh': True, 'exit_code': 0}})
    js.append({'name': 'run single line', 'harness': (H, 'h_run'), 'mir': MIR_KINDS, 'params': {'depth': 1, 'cwd_kind': 'equal', 'ncont': 0}})
    for mode in ('InMemoryBuild', 'Clean'):
        js.append({'name': 'run mode=%s' % mode, 'harness': (H, 'h_run'), 'mir': MIR_KINDS, 'params': {'depth': 1, 'cwd_kind': 'ancestor', 'mode': mode, 'exit_code': 0}})
    for sub in (None, 'Clean', 'Verify'):
        for tf in (None, b'', b'x', b'sub/inner.txtpp'):
            js.append({'name': 'cli sub=%s TXTPP_FILE=%r' % (sub, tf), 'harness': (H, 'h_cli'), 'mir': MIR_KINDS, 'params': {'sub': sub, 'txtpp_file': tf}})
    from . import project
    js += project.jobs('C17', tier)
    return js


BOUNDS = {'quick': 'sources at depth 0-3 below the base directory x process cwd equal / ancestor / unrelated / root x default and overridden shell x '
                   'sources outside the base directory (sibling sharing a name prefix, unrelated, parent) x 1-2 command lines of 2 symbolic printable bytes each x exit status 0/1 x all four modes; main(): every combination of the '
                   'boolean flags, 3 thread counts, 3 sub-commands, TXTPP_FILE unset / empty / set',
          'thorough': 'same with 3 command lines'}
ASSUMPTIONS = ['std::process::Command is a recording contract model; Command::current_dir is resolved against the process cwd as documented',
               'TXTPP_FILE "designates" the source if it resolves to it as an absolute path or relative to the base directory (the README says '
               'absolute, the repository test-suite pins the base-relative form)', 'clap parsing is outside the claim: main() is run on an arbitrary parsed Cli value']
COVERS_REQUIRED = ['run_depth3_unrelated', 'run_depth0_equal', 'guard', 'cli_InMemoryBuild', 'cli_Build', 'cli_Clean', 'cli_Verify']


def finding_key(v, detail):
    return None


def replay(native, v):
    import os, shutil, tempfile, subprocess
    from lib import build
    from . import ppreplay
    d = v['data']
    model = d.get('model', {})
    if d['op'] == 'cli':
        cli = ppreplay.cli_path()
        root = tempfile.mkdtemp(prefix='replay-cli-', dir=build.scratch_dir())
        open(os.path.join(root, 'a.txtpp'), 'w').write('x\n')
        e = dict(os.environ)
        e.pop('TXTPP_FILE', None)
        if d['txtpp_file'] is not None:
            e['TXTPP_FILE'] = d['txtpp_file']
        args = [cli]
        if d['sub']:
            args.append(d['sub'].lower())
        if d['needed'] and not d['sub']:
            args.append('-N')
        if d['no_trailing_newline'] and d['sub'] != 'Clean':
            args.append('-n')
        args += ['-q', 'a.txtpp']
        r = subprocess.run(args, cwd=root, env=e, capture_output=True)
        out = open(os.path.join(root, 'a'), 'rb').read() if os.path.exists(os.path.join(root, 'a')) else None
        shutil.rmtree(root, ignore_errors=True)
        detail = {'args': args[1:], 'TXTPP_FILE': d['txtpp_file'], 'rc': r.returncode, 'output': repr(out)}
        if d['txtpp_file']:
            return (r.returncode == 0 or out is not None), detail
        bad = False
        if not d['sub']:
            want = b'x' if d['no_trailing_newline'] else b'x\n'
            bad = (r.returncode != 0 or out != want)
        return bad, detail
    if v['msg'].startswith('exit status'):
        root = tempfile.mkdtemp(prefix='replay-exit-', dir=build.scratch_dir())
        cmd = {0: 'true', 1: 'exit 3', None: 'echo partial; kill -9 $$'}[d['exit']]
        open(os.path.join(root, 'a.txt.txtpp'), 'w').write('-TXTPP#run %s\n' % cmd)
        r = subprocess.run([ppreplay.cli_path(), '-q', 'a.txt.txtpp'], cwd=root, capture_output=True)
        shutil.rmtree(root, ignore_errors=True)
        return ((r.returncode == 0) != (d['exit'] == 0)), {'command': cmd, 'txtpp exit code': r.returncode}
    if 'joined by single spaces' in v['msg']:
        # observe the exact command string with a recording shell
        root = tempfile.mkdtemp(prefix='replay-cmd-', dir=build.scratch_dir())
        srcb = ppreplay.conc(d['source'], model)
        open(os.path.join(root, 'a.txt.txtpp'), 'wb').write(srcb)
        rec = os.path.join(root, 'recsh')
        open(rec, 'w').write('#!/bin/sh\nprintf \'%%s\' "$2" > %s/cmd\nexit 0\n' % root)
        os.chmod(rec, 0o755)
        r = subprocess.run([ppreplay.cli_path(), '-q', '-s', rec + ' -c', 'a.txt.txtpp'], cwd=root, capture_output=True)
        got = open(os.path.join(root, 'cmd'), 'rb').read() if os.path.exists(os.path.join(root, 'cmd')) else None
        ls = srcb.split(b'\n')[:-1]
        want = b' '.join([ls[0][len(b'-TXTPP#run '):]] + [l[1:] for l in ls[1:]])
        shutil.rmtree(root, ignore_errors=True)
        return got != want, {'source': repr(srcb), 'command received by the shell': repr(got), 'expected': repr(want)}
    if d.get('rel_path_shell'):
        # the CLI (base = process cwd) with a shell that is found through a relative $PATH entry
        root = tempfile.mkdtemp(prefix='replay-relsh-', dir=build.scratch_dir())
        src = root + d['src'][len(d['base']):]
        os.makedirs(os.path.dirname(src), exist_ok=True)
        os.makedirs(os.path.join(root, 'tools', 'bin'))
        sh = os.path.join(root, 'tools', 'bin', 'mysh')
        open(sh, 'w').write('#!/bin/sh\nexec /bin/sh "$@"\n')
        os.chmod(sh, 0o755)
        open(src, 'wb').write(b'-TXTPP#run pwd\n')
        e = dict(os.environ)
        e.pop('TXTPP_FILE', None)
        e['PATH'] = 'tools/bin:' + e.get('PATH', '/usr/bin:/bin')
        r = subprocess.run([ppreplay.cli_path(), '-q', '-s', 'mysh -c', os.path.relpath(src, root)], cwd=root, env=e, capture_output=True)
        outp = src[:-len('.txtpp')]
        got = open(outp, 'rb').read() if os.path.exists(outp) else None
        detail = {'PATH': 'tools/bin:...', 'shell': 'mysh -c', 'source': os.path.relpath(src, root), 'rc': r.returncode,
                  'stderr': r.stderr.decode('latin1')[:600], 'output (pwd)': repr(got)}
        bad = not (r.returncode == 0 and got is not None and os.path.realpath(got.decode().strip()) == os.path.realpath(os.path.dirname(src)))
        shutil.rmtree(root, ignore_errors=True)
        return bad, detail
    # run contract: library entry point with base != cwd through the helper
    root = tempfile.mkdtemp(prefix='replay-run-', dir=build.scratch_dir())
    base = root + d['base']
    cwd = root + d['cwd']
    src = root + d['src']
    os.makedirs(os.path.dirname(src), exist_ok=True)
    os.makedirs(cwd, exist_ok=True)
    os.makedirs(base, exist_ok=True)
    if d.get('decoy_sh'):
        os.makedirs(os.path.join(cwd, 'sh'), exist_ok=True)
        open(os.path.join(cwd, 'bash'), 'w').write('#!/bin/sh\necho hijacked\n')
        os.chmod(os.path.join(cwd, 'bash'), 0o755)
    srcb = ppreplay.conc(d['source'], model)
    # replace the symbolic command by an observable one with the same line structure
    nl = srcb.count(b'\n')
    lines = [b'-TXTPP#run pwd;'] + [b'-echo "$TXTPP_FILE"'] * (nl - 1)
    if nl == 1:
        lines = [b'-TXTPP#run pwd; echo "$TXTPP_FILE"']
    open(src, 'wb').write(b'\n'.join(lines) + b'\n')
    rel = os.path.relpath(src, base)
    req = 'txtpp %s %s Build 2 1 0 %s %s' % (hexs(cwd.encode()), hexs(base.encode()), hexs(d['shell_cmd'].encode()), hexs(rel.encode()))
    out = native.ask(req)
    outp = src[:-len('.txtpp')]
    got = open(outp, 'rb').read() if os.path.exists(outp) else None
    detail = {'base': d['base'], 'process cwd': d['cwd'], 'source': d['src'], 'result': out, 'output (pwd / TXTPP_FILE)': repr(got)}
    bad = True
    if out == 'OK' and got:
        ls = got.decode().split('\n')
        pwd_ok = os.path.realpath(ls[0]) == os.path.realpath(os.path.dirname(src))
        tf = ls[1] if len(ls) > 1 else ''
        tf_ok = os.path.realpath(os.path.join(base, tf)) == os.path.realpath(src)
        bad = not (pwd_ok and tf_ok)
    shutil.rmtree(root, ignore_errors=True)
    return bad, detail
