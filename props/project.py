"""Whole-project harness through the public entry point only (`Txtpp::run(Config)`), with the REAL `preprocess` in every task.

Nothing below the public API is named by the harness (no `preprocess`, `Pp`, `IOCtx` signatures), so a refactoring of the
internals cannot make it inapplicable.  The scheduler model runs one fixed schedule (`fifo`: a task runs when the
coordinator polls an empty channel); schedule independence is the subject of C02/C03/C05 (props/sched.py).

Reference semantics of a project (README "Include Directive", "After Directive", "Usage", DESIGN.md 4.1/4.4):
  selection   each input resolved against the base directory: a directory contributes the txtpp sources directly inside
              it (and, with recursion, in every nested directory); a file names its source directly or by its output name;
              anything else is an error
  build       sources are processed in dependency order: `include X` / `after X` where X is not itself a txtpp name and has
              a txtpp source next to it (X.txtpp, stem.ext.txtpp / stem.txtpp.ext) makes that source a dependency that is
              processed first, and X is then its fresh output; every source is processed once, by spec/pp.py
  verify      as build, but outputs are compared instead of written (temp files are still written)
  clean       only the selected sources (no dependencies): their output and their temp targets are removed
Commands are a small deterministic vocabulary interpreted identically by the process model, by the reference semantics
and (natively) by /bin/sh:  echo W | printf W | true | false | cat FILE.
"""
import os
import posixpath

from mirsym.core import Violation, BoundExceeded
from mirsym.interp import Interp
from mirsym.models_env import Env
from mirsym.values import *
from spec import pp as specpp
from spec import names as specnames
from .common import *
from .ppgen import syms_of

BASE = b'/w'


def norm(p):
    return posixpath.normpath(p)


def dir_of(p):
    return posixpath.dirname(p)


def is_conc(bs):
    return all(isinstance(b, int) for b in bs)


class ProjectError(Exception):
    pass


# ----------------------------------------------------------------------------- commands

def run_command(cmd, cwd, read_file, env_file=None):
    """-> (exit code, stdout bytes tuple) for the command vocabulary; read_file(path) -> tuple | None"""
    if not is_conc(cmd):
        raise ProjectError('symbolic command text')
    c = bytes(cmd)
    parts = c.split(b' ')
    if parts[0] == b'echo':
        return 0, tuple(b' '.join(parts[1:]) + b'\n')
    if parts[0] == b'printf':
        return 0, tuple(b' '.join(parts[1:]))
    if c == b'true':
        return 0, ()
    if c == b'false':
        return 1, ()
    if c == b'printenv TXTPP_FILE':
        v = env_file() if env_file is not None else None
        if v is None:
            return 1, ()
        return 0, tuple(v) + (10,)
    if parts[0] == b'cat' and len(parts) >= 2 and all(parts[1:]):
        out = ()
        code = 0
        for f in parts[1:]:
            data = read_file(norm(posixpath.join(cwd, f)))
            if data is None:
                code = 1                  # cat: f: No such file or directory (the other files are still printed)
            else:
                out += tuple(data)
        return code, out
    raise ProjectError('command outside the modelled vocabulary: %r' % c)


# ----------------------------------------------------------------------------- reference semantics

def source_candidates(target):
    """txtpp sources that generate `target` (README: FILE_PATH.txtpp; Usage: foo.ext.txtpp / foo.txtpp.ext), in lookup order"""
    d, name = posixpath.split(target)
    if b'.' in name[1:]:
        stem, ext = name.rsplit(b'.', 1)
        return [posixpath.join(d, name + b'.txtpp'), posixpath.join(d, stem + b'.txtpp.' + ext)]
    return [posixpath.join(d, name + b'.txtpp')]


class Expect:
    def __init__(self):
        self.ok = True
        self.error = None
        self.fs = {}
        self.processed = []
        self.allowed = set()
        self.commands = []
        self.kinds = set()       # why the run is expected to fail: 'cycle' (only dependency cycles) / 'other'
        self.built = []          # (source, output) of the sources the reference semantics completes


def spec_project(ctx, files, dirs, inputs, recursive, mode, trailing, base=BASE, links=None):
    """files: {abs path: content tuple}; dirs: set of abs paths.  -> Expect"""
    ex = Expect()
    fs = dict(files)
    ex.fs = fs
    cc = ctx

    def is_txtpp(p):
        return specnames.is_txtpp_name(cc, tuple(posixpath.basename(p)))

    def out_of(p):
        o = specnames.output_name(cc, tuple(posixpath.basename(p)))
        return posixpath.join(dir_of(p), bytes(o))

    def source_of(target):
        if is_txtpp(target):
            return None
        for c in source_candidates(target):
            if c in fs:
                return c
        return None

    # ---- selection
    selected = []

    def add(p):
        if p not in selected:
            selected.append(p)

    links = {k.encode() if isinstance(k, str) else k: (t.encode() if isinstance(t, str) else t) for k, t in (links or {}).items()}

    def scan(d):
        for p in sorted(fs):
            if dir_of(p) == d and is_txtpp(p):
                add(p)
        # an entry that is a symbolic link counts as what it points to (is_file / is_dir follow links); the source is processed
        # under its real path
        for l, t in sorted(links.items()):
            if dir_of(l) == d:
                if t in fs and is_txtpp(l):
                    add(t)
                elif t in dirs and recursive:
                    scan(t)
        if recursive:
            for sd in sorted(dirs):
                if dir_of(sd) == d and sd != d:
                    scan(sd)
    try:
        for inp in inputs:
            p = norm(posixpath.join(base, inp.encode() if isinstance(inp, str) else inp))
            p = links.get(p, p)
            if p in dirs:
                scan(p)
            elif not is_txtpp(p):
                s = source_of(p)
                if s is None:
                    raise ProjectError('named target has no txtpp source: %s' % p.decode())
                add(s)
            else:
                if p not in fs:
                    raise ProjectError('named source does not exist: %s' % p.decode())
                add(p)
    except ProjectError as e:
        ex.ok = False
        ex.error = str(e)
        return ex

    done = {}

    class FileEnv:
        def __init__(self, src, stack):
            self.src = src
            self.stack = stack
            self.d = dir_of(src)

        def _dep(self, arg):
            if not is_conc(arg):
                raise ProjectError('symbolic include target')
            target = norm(posixpath.join(self.d, bytes(arg)))
            s = source_of(target)
            if s is not None and mode != 'Clean':
                process(s, self.stack + [self.src])
                if not done[s]:
                    raise specpp.SpecError('dependency failed')
            return target

        def include(self, ctx_, arg):
            target = self._dep(arg)
            return fs.get(target)

        def after(self, ctx_, arg):
            self._dep(arg)

        def run(self, ctx_, cmd):
            # TXTPP_FILE designates the source: relative to the base directory for sources below it (pinned by the repository's tests)
            rel = self.src[len(base) + 1:] if self.src.startswith(base + b'/') else self.src
            code, out = run_command(tuple(cmd), self.d, lambda p: fs.get(p), lambda: rel)
            ex.commands.append((self.src, bytes(cmd)))
            return out if code == 0 else None

        def is_txtpp_name(self, ctx_, arg):
            return specnames.is_txtpp_name(ctx_, tuple(arg))

        def write_temp(self, ctx_, arg, content):
            if not is_conc(arg):
                raise ProjectError('symbolic temp target')
            t = norm(posixpath.join(self.d, bytes(arg)))
            ex.allowed.add(t)
            fs[t] = tuple(content)

    def process(src, stack):
        if src in done:
            return
        if src in stack:
            raise specpp.SpecError('dependency cycle')
        ex.processed.append(src)
        out = out_of(src)
        ex.allowed.add(out)
        fenv = FileEnv(src, stack)
        # "FILE_PATH.txtpp will be preprocessed first": every dependency of the source is complete before the source is
        # processed (a command placed before the dependency line may therefore already see the fresh file)
        failed = None
        for a in specpp.dep_targets(cc, tuple(fs[src])):
            try:
                fenv._dep(a)
            except specpp.SpecError as e:
                failed = failed or e          # the other dependencies are still required files: they are built all the same
        if failed is not None:
            done[src] = False
            ex.ok = False
            kind = 'cycle' if 'cycle' in str(failed) or 'dependency failed' in str(failed) else 'other'
            if kind == 'cycle':
                # the source may fail for a reason of its own BEFORE its first dependency line is reached (a failing command, tag
                # misuse ...): then the run stops there, nothing is known about its dependencies, and the failure is not "only a cycle"
                class _AtFirstDep(Exception):
                    pass

                class _Probe(FileEnv):
                    def _dep(self, arg):
                        target = norm(posixpath.join(self.d, bytes(arg)))
                        if source_of(target) is not None:
                            raise _AtFirstDep()
                        return target

                    def write_temp(self, ctx_, arg, content):
                        pass
                try:
                    pr = specpp.process(cc, tuple(fs[src]), _Probe(src, stack), trailing)
                    if not pr.ok:
                        kind = 'other'
                except _AtFirstDep:
                    pass
            ex.kinds.add(kind)
            ex.error = ex.error or ('%s: %s' % (src.decode(), failed))
            # its first pass may have run up to the first dependency line: temp targets are legitimately touched
            for t in specpp.temp_targets_all(cc, tuple(fs[src])):
                if is_conc(t) and not specnames.is_txtpp_name(cc, tuple(t)):
                    ex.allowed.add(norm(posixpath.join(dir_of(src), bytes(t))))
            return
        r = specpp.process(cc, tuple(fs[src]), fenv, trailing)
        done[src] = r.ok
        if not r.ok:
            ex.ok = False
            ex.kinds.add('other')
            ex.error = ex.error or ('%s: %s' % (src.decode(), r.error))
            return
        ex.built.append((src, out))
        if mode == 'Verify':
            cur = fs.get(out)
            if cur is None or len(cur) != len(r.output) or not specpp.beq(cc, tuple(cur), tuple(r.output)):
                ex.ok = False
                ex.kinds.add('other')
                ex.error = ex.error or ('%s: output is not up to date' % src.decode())
        else:
            fs[out] = tuple(r.output)

    if mode == 'Clean':
        for src in selected:
            ex.processed.append(src)
            out = out_of(src)
            ex.allowed.add(out)
            fs.pop(out, None)
            for t in specpp.temp_targets_all(cc, tuple(fs[src])):
                if is_conc(t):
                    tp = norm(posixpath.join(dir_of(src), bytes(t)))
                    ex.allowed.add(tp)
                    if not is_txtpp(tp):
                        fs.pop(tp, None)
        return ex
    for src in selected:
        try:
            process(src, [])
        except specpp.SpecError as e:
            ex.ok = False
            ex.error = ex.error or str(e)
    return ex


# ----------------------------------------------------------------------------- layouts

def layout(ctx, name):
    """-> (files, dirs, description of the symbolic bytes)"""
    x0 = ctx.fresh_byte('x0', ASCII_LINE)
    x1 = ctx.fresh_byte('x1', ASCII_LINE)
    T = tuple
    if name == 'chain':
        # m -> a (include + after + command after the dependency), c -> a from a sub-directory, b independent with temps
        files = {
            b'/w/a.txt.txtpp': T(b't') + (x0,) + T(b'\n#TXTPP#run echo A\n'),
            b'/w/m.txtpp': T(b'head\n-TXTPP#after a.txt\n#TXTPP#run cat a.txt\n-TXTPP#include a.txt\nlast') + (x1,) + T(b'\n'),
            b'/w/b.txtpp': T(b'-TXTPP#temp t.tmp\n-k') + (x1,) + T(b'\n+TXTPP#write w\n'),
            b'/w/sub/c.txtpp.md': T(b'-TXTPP#include ../a.txt\nc\n'),
            b'/w/plain.txt': T(b'plain\n'),
        }
        dirs = {b'/w', b'/w/sub'}
    elif name == 'deep':
        # three-level chain across directories, every level with a temp target; dependency named after other directives
        files = {
            b'/w/page.html.txtpp': T(b'-TXTPP#include lib/menu.html\n#TXTPP#run echo P\n-TXTPP#after lib/sub/foot.html\n#TXTPP#run cat lib/sub/foot.html\np') + (x0,) + T(b'\n'),
            b'/w/lib/menu.html.txtpp': T(b'#TXTPP#temp menu.gen\n#g\n-TXTPP#include sub/foot.html\nm') + (x1,) + T(b'\n'),
            b'/w/lib/sub/foot.txtpp.html': T(b'#TXTPP#temp foot.gen\n#f\nfoot\n'),
            b'/w/lib/other.txt.txtpp': T(b'o\n'),
        }
        dirs = {b'/w', b'/w/lib', b'/w/lib/sub'}
    elif name == 'odd-dirs':
        # directories whose own names look like txtpp sources; look-alike files
        files = {
            b'/w/top.txt.txtpp': T(b't') + (x0,) + T(b'\n'),
            b'/w/templates.txtpp/b.txt.txtpp': T(b'b') + (x1,) + T(b'\n'),
            b'/w/plain/gen.txtpp.d/c.txtpp': T(b'c\n'),
            b'/w/plain/a.txt.txtpp': T(b'a\n'),
            b'/w/plain/txtpp': T(b'decoy\n'),
            b'/w/plain/.txtpp': T(b'decoy\n'),
            b'/w/plain/x.txtpp.b.c': T(b'decoy\n'),
        }
        dirs = {b'/w', b'/w/templates.txtpp', b'/w/plain', b'/w/plain/gen.txtpp.d'}
    elif name == 'doc':
        # a page that documents directives inside a write block after a real dependency (the escaped lines name real files)
        files = {
            b'/w/doc.md.txtpp': T(b'-TXTPP#include a.txt\n+TXTPP#write x\n+TXTPP#include other.txt\n+TXTPP#after doc.md\n+TXTPP#run false\nd') + (x0,) + T(b'\n'),
            b'/w/a.txt.txtpp': T(b'a') + (x1,) + T(b'\n'),
            b'/w/other.txt.txtpp': T(b'o\n'),
        }
        dirs = {b'/w'}
    elif name == 'multi-dep':
        # several dependency directives interleaved with other directives (no text between them)
        files = {
            b'/w/r.txtpp': T(b'-TXTPP#after x.txt\n#TXTPP#run cat x.txt\n-TXTPP#after y.txt\n#TXTPP#run cat y.txt\n-TXTPP#tag T\n-TXTPP#include z.txt\nr T') + (x0,) + T(b'\n'),
            b'/w/x.txt.txtpp': T(b'x') + (x1,) + T(b'\n'),
            b'/w/y.txt.txtpp': T(b'#TXTPP#run echo Y\n'),
            b'/w/z.txt.txtpp': T(b'z\n'),
        }
        dirs = {b'/w'}
    elif name.startswith('gen'):
        # m.txt.txtpp: n lines, each drawn from a menu of text / directive lines that may depend on the generated files a.txt
        # (plain source), b.txt (includes a.txt) and on m.txt itself (cycle)
        n = int(name[3:])
        menu = [T(b't') + (x0,), T(b'-TXTPP#include a.txt'), T(b'-TXTPP#after a.txt'), T(b'#TXTPP#run cat a.txt'), T(b'#TXTPP#run echo R'),
                T(b'-TXTPP#tag T'), T(b'uT') + (x1,), T(b'+TXTPP#write w'), T(b'+TXTPP#temp t.tmp'), T(b'+k'),
                T(b'-TXTPP#include plain.txt'), T(b'-TXTPP#include b.txt'), T(b'-TXTPP#include m.txt'), T(b'#TXTPP#run cat b.txt')]
        src = ()
        picks = []
        for i in range(n):
            k = ctx.choose(len(menu), 'gen%d' % i)
            picks.append(k)
            src += menu[k] + T(b'\n')
        files = {
            b'/w/m.txt.txtpp': src,
            b'/w/a.txt.txtpp': T(b'a\n#TXTPP#run echo A\n'),
            b'/w/b.txt.txtpp': T(b'-TXTPP#include a.txt\nb\n'),
            b'/w/plain.txt': T(b'p\n'),
        }
        dirs = {b'/w'}
        return files, dirs, {'x0': syms_of((x0,)), 'x1': syms_of((x1,)), 'picks': picks}
    elif name == 'links':
        # a project directory that reaches sources through symbolic links: a linked source file and a linked sub-directory
        files = {
            b'/w/proj/top.txtpp': T(b't') + (x0,) + T(b'\n'),
            b'/w/shared/part.txtpp': T(b'p') + (x1,) + T(b'\n#TXTPP#run false\n'),
            b'/w/shared/sub/deep.txtpp': T(b'-TXTPP#include missing.txt\n'),
            b'/w/shared/sub/fine.txtpp': T(b'f\n'),
        }
        dirs = {b'/w', b'/w/proj', b'/w/shared', b'/w/shared/sub'}
        return files, dirs, {'x0': syms_of((x0,)), 'x1': syms_of((x1,)),
                             'links': {'/w/proj/part.txtpp': '/w/shared/part.txtpp', '/w/proj/sublink': '/w/shared/sub'}}
    elif name == 'links-ok':
        files = {
            b'/w/proj/top.txtpp': T(b't') + (x0,) + T(b'\n'),
            b'/w/shared/part.txtpp': T(b'p') + (x1,) + T(b'\n#TXTPP#run echo P\n'),
            b'/w/shared/sub/deep.txtpp': T(b'-TXTPP#include ../part\n'),
        }
        dirs = {b'/w', b'/w/proj', b'/w/shared', b'/w/shared/sub'}
        return files, dirs, {'x0': syms_of((x0,)), 'x1': syms_of((x1,)),
                             'links': {'/w/proj/part.txtpp': '/w/shared/part.txtpp', '/w/proj/sublink': '/w/shared/sub'}}
    elif name == 'mixed-le':
        # sources with different line endings processed one after the other (by the same worker when there is one thread)
        files = {
            b'/w/a.txtpp': T(b'first\r\na') + (x0,) + T(b'\r\n'),
            b'/w/b.txtpp': T(b'first\nb') + (x1,) + T(b'\n-TXTPP#include plain.txt\n'),
            b'/w/c.txtpp': T(b'f\r\n-TXTPP#include plain.txt\r\n'),
            b'/w/d.txtpp': T(b'ff\n-TXTPP#include plain.txt\n'),
            b'/w/plain.txt': T(b'p1\r\np2\n'),
        }
        dirs = {b'/w'}
    elif name == 'tagdep':
        # tags that are created before a dependency line and used after it; a source pasted verbatim (include of a .txtpp file)
        files = {
            b'/w/m.txt.txtpp': T(b'-TXTPP#tag T\n+TXTPP#write v') + (x0,) + T(b'\n-TXTPP#include a.txt\nuse T here\n-TXTPP#tag U\n-TXTPP#include a.txt\n[U]\n'),
            b'/w/a.txt.txtpp': T(b'a') + (x1,) + T(b'\n'),
            b'/w/q.txt.txtpp': T(b'-TXTPP#include sub/x.txt.txtpp\n-TXTPP#after sub/y.txtpp.md\nq\n'),
            b'/w/sub/x.txt.txtpp': T(b'#TXTPP#run echo X\n'),
            b'/w/sub/y.txtpp.md': T(b'y\n'),
        }
        dirs = {b'/w', b'/w/sub'}
    elif name == 'empty-dep':
        # dependencies whose fresh output is EMPTY (only output-less directives / an empty source): an older non-empty output must go
        files = {
            b'/w/report.txt.txtpp': T(b'-TXTPP#include notes.txt\n-TXTPP#include none.txt\nr') + (x0,) + T(b'\n'),
            b'/w/notes.txt.txtpp': T(b'// TXTPP# a comment\n#TXTPP#temp n.tmp\n#k') + (x1,) + T(b'\n'),
            b'/w/none.txt.txtpp': T(b''),
        }
        dirs = {b'/w'}
    elif name == 'envdep':
        # TXTPP_FILE as seen by commands of sources that are reached as dependencies of an includer in a sub-directory
        files = {
            b'/w/d/top.txt.txtpp': T(b'-TXTPP#include inc/b.txt\n#TXTPP#run printenv TXTPP_FILE\nt') + (x0,) + T(b'\n'),
            b'/w/d/inc/b.txt.txtpp': T(b'#TXTPP#run printenv TXTPP_FILE\nb') + (x1,) + T(b'\n-TXTPP#include deeper/c.txt\n'),
            b'/w/d/inc/deeper/c.txt.txtpp': T(b'#TXTPP#run printenv TXTPP_FILE\n'),
        }
        dirs = {b'/w', b'/w/d', b'/w/d/inc', b'/w/d/inc/deeper'}
    elif name == 'tempinc':
        # a source that writes a temp file and includes it again; the tree holds the temp file and the output of an OLDER version of
        # the source (history: build, edit the body of the temp directive, do not rebuild)
        files = {
            b'/w/v.txt.txtpp': T(b'#TXTPP#temp f.inc\n#new') + (x0,) + T(b'\n#\n-TXTPP#include f.inc\n+TXTPP#run cat f.inc\nend') + (x1,) + T(b'\n'),
            b'/w/f.inc': T(b'old\n'),
            b'/w/v.txt': T(b'old\nold\nend') + (x1,) + T(b'\n'),
        }
        dirs = {b'/w'}
    elif name == 'big':
        # outputs larger than the 8 KiB buffers of BufReader / BufWriter, lines straddling the 8192 boundary; an included file of 9000 bytes
        line = T(b'0123456789abcdefghijklmnopqrstuvwxyz....\n')          # 41 bytes
        files = {
            b'/w/big.txt.txtpp': line * 199 + T(b'y') + (x0,) + T(b'\n') + line * 230,
            b'/w/inc.txt.txtpp': T(b'-TXTPP#include blob\nz') + (x1,) + T(b'\n'),
            b'/w/blob': T(b'B' * 8999 + b'\n'),
        }
        dirs = {b'/w'}
    else:
        raise KeyError(name)
    return files, dirs, {'x0': syms_of((x0,)), 'x1': syms_of((x1,))}


def stale_outputs(files, which):
    """pre-existing (stale) generated files: which = 'none' | 'stale' (every output exists with old text)"""
    out = dict(files)
    if which == 'stale':
        cc = ConcreteCtx()
        for p in list(files):
            name = posixpath.basename(p)
            if specnames.is_txtpp_name(cc, tuple(name)):
                o = posixpath.join(dir_of(p), bytes(specnames.output_name(cc, tuple(name))))
                out[o] = tuple(b'old ' + posixpath.basename(o) + b'\n')
    return out


# ----------------------------------------------------------------------------- harness

def h_project(m, ctx, lay, inputs, mode='Build', recursive=False, trailing=True, pre='none', history=None, threads=2,
              compare_trailing=False):
    """history: list of modes run one after the other on the same tree (default [mode]); every step is compared with the
    reference semantics applied to the reference tree of the previous step"""
    from . import sched
    files, dirs, symdesc = layout(ctx, lay)
    files = stale_outputs(files, pre)
    it = Interp(m, ctx)
    if lay == 'big':
        it.max_loop_visits = 20000          # one iteration of the line loop per source line (430 lines), byte loops over 9000 bytes
    env = Env(it, cwd=BASE)
    it.env = env
    for d in sorted(dirs):
        env.add_dir(d)
    for p, c in files.items():
        env.add_file(p, c)
    links = symdesc.get('links') or {}
    for l, t in links.items():
        env.add_symlink(l.encode(), t.encode())
    env.add_file(b'/bin/sh', b'')
    env.sched_policy = 'fifo'

    def proc(it_, rec):
        cwd = bytes(rec['cwd'].b) if rec['cwd'] is not None else BASE
        cwd = norm(posixpath.join(BASE, cwd))
        cmd = rec['args'][-1].b
        try:
            envs = {bytes(k.b): v.b for k, v in rec['env'] if is_conc(k.b)}
            code, out = run_command(tuple(cmd), cwd, lambda p: env.read_file(p), lambda: envs.get(b'TXTPP_FILE'))
        except ProjectError as e:
            raise Violation('a command that is not in the source was run: %r' % (bytes(cmd) if is_conc(cmd) else cmd,), data)
        return (code, out, ())
    env.proc_handler = proc
    # a step is a mode, or (mode, inputs, recursive) when the selection changes between runs
    steps = [(st, list(inputs), recursive, trailing) if isinstance(st, str) else
             (st[0], list(st[1]), st[2], st[3] if len(st) > 3 else trailing) for st in (history or [mode])]
    data = {'op': 'project', 'layout': lay, 'trailing': trailing, 'pre': pre, 'steps': [list(st) for st in steps], 'sym': symdesc,
            'threads': threads}
    ref_fs = dict(files)
    for si, (md, inputs, recursive, trailing) in enumerate(steps):
        exp = spec_project(ctx, ref_fs, dirs, inputs, recursive, md, trailing, links=links)
        cfg = sched.mk_config(m, inputs, md, recursive, threads)
        cfg = StructV('Config', cfg.f[:7] + (trailing,))
        env.log = []
        try:
            r = it.call_mir(m.find_method('Txtpp', 'run'), [cfg])
        except BoundExceeded as b:
            raise Violation('hang: %s' % b, dict(data, step=si))
        except Violation as v_:
            if v_.msg.startswith('hang'):
                raise Violation(v_.msg, dict(data, step=si))
            raise
        ok_ = (r.idx == 0)
        d2 = dict(data, step=si, mode=md, expected_ok=exp.ok, expected_error=exp.error)
        if ok_ != exp.ok:
            violation(ctx, '%s: verdict is %s, the reference semantics say %s (%s)' % (md, 'Ok' if ok_ else 'Err', 'Ok' if exp.ok else 'Err', exp.error), d2)
        # every mutation must target an output / temp target of a processed source
        for op, path in env.log:
            if path.encode('latin1') not in exp.allowed:
                violation(ctx, '%s: txtpp %s %s, which is neither the output nor a temp target of a source it has to process' % (md, op, path),
                          dict(d2, log=list(env.log)))
            if md == 'Clean' and op in ('create', 'write', 'truncate'):
                violation(ctx, 'clean %s %s' % (op, path), dict(d2, log=list(env.log)))
        ctx.cover('project_%s_%s' % (md, 'ok' if ok_ else 'err'))
        if ok_:
            # the whole tree equals the reference tree
            snap = env.snapshot()
            have = {k.encode('latin1'): v[1] for k, v in snap.items() if v[0] == 'file' and k != '/bin/sh'}
            for p in sorted(set(have) | set(exp.fs)):
                a, b = have.get(p), exp.fs.get(p)
                if a is None or b is None:
                    violation(ctx, '%s: %s %s' % (md, p.decode(), 'is missing' if a is None else 'exists but should not'), d2)
                check_bytes_equal(ctx, tuple(a), tuple(b), '%s: content of %s differs from the reference semantics' % (md, p.decode()), d2)
            ref_fs = {p: tuple(c) for p, c in exp.fs.items()}
        else:
            snap = env.snapshot()
            if exp.kinds == {'cycle'} and md in ('Build', 'InMemoryBuild'):
                # C05: the failure is a dependency cycle only: every required file that cannot reach the cycle is still built
                for src_, out_ in exp.built:
                    got_ = snap.get(out_.decode('latin1'))
                    if got_ is None or got_[0] != 'file':
                        violation(ctx, '%s: %s cannot reach the cycle but was not built in the failing run' % (md, out_.decode()), d2)
                    check_bytes_equal(ctx, tuple(got_[1]), tuple(exp.fs[out_]),
                                      '%s: %s cannot reach the cycle but its content differs from the reference semantics' % (md, out_.decode()), d2)
            # a failed run may leave partial results: continue from the implementation's tree, restricted to what it may touch
            ref_fs = {k.encode('latin1'): tuple(v[1]) for k, v in snap.items() if v[0] == 'file' and k != '/bin/sh'}
    if compare_trailing:
        ctx.cover('project_trailing_%s' % trailing)


# ----------------------------------------------------------------------------- native replay

def replay(native, v):
    import shutil, subprocess, tempfile
    from lib import build
    from . import ppreplay
    from .fsprops import MODE_ARGS
    d = v['data']
    model = d.get('model', {})

    class _C:
        """layout() with the model's bytes and the recorded menu picks"""
        def __init__(self):
            self.picks = list(d.get('sym', {}).get('picks', []))

        def fresh_byte(self, name, dom):
            return model.get(name, 120)

        def choose(self, n, label):
            return self.picks.pop(0)
    files, dirs, desc_ = layout(_C(), d['layout'])
    links = desc_.get('links') or {}
    files = stale_outputs(files, d.get('pre', 'none'))
    root = tempfile.mkdtemp(prefix='replay-proj-', dir=build.scratch_dir())

    def real(p):
        return root + p.decode()
    for dd in dirs:
        os.makedirs(real(dd), exist_ok=True)
    for p, c in files.items():
        os.makedirs(os.path.dirname(real(p)), exist_ok=True)
        open(real(p), 'wb').write(bytes(c))

    for l, t in links.items():
        os.makedirs(os.path.dirname(root + l), exist_ok=True)
        os.symlink(root + t, root + l)

    def snap():
        out = {}
        for dp, dn, fn in os.walk(real(BASE)):
            for f in fn:
                p = os.path.join(dp, f)
                if os.path.islink(p):
                    continue                       # the link itself is not a generated file; its target is listed under its real path
                out[p[len(root):].encode()] = tuple(open(p, 'rb').read())
        return out
    cli = ppreplay.cli_path()
    cc = ConcreteCtx()
    ref = dict(files)
    detail = {'steps': []}
    bad = False
    e = dict(os.environ)
    e.pop('TXTPP_FILE', None)
    for st_ in d['steps']:
        md, inputs, recursive = st_[0], st_[1], st_[2]
        trailing_ = st_[3] if len(st_) > 3 else d['trailing']
        exp = spec_project(cc, ref, set(dirs), inputs, recursive, md, trailing_, links=links)
        before = snap()
        args = [cli] + list(MODE_ARGS[md]) + ['-q', '-j', str(d.get('threads', 2))]
        if recursive:
            args.append('-r')
        if not trailing_ and md != 'Clean':
            args.append('-n')
        args += list(inputs)
        if not inputs:
            # an empty input list cannot be expressed on the command line (clap defaults to "."): library entry point through the helper
            helper = build.build_native(build.copy_repo())['replay']
            line = 'txtpp %s %s %s %d %d %d - ' % (hexs(real(BASE).encode()), hexs(real(BASE).encode()), md, d.get('threads', 2),
                                                   1 if trailing_ else 0, 1 if recursive else 0)
            try:
                r = subprocess.run([helper], input=line.rstrip() + '\n', cwd=real(BASE), env=e, capture_output=True, text=True, timeout=30)
                ans = r.stdout.strip()
                rc = 0 if ans == 'OK' else 1 if ans == 'ERR' else 101
            except subprocess.TimeoutExpired:
                rc = 'HANG'
            args = ['<library: Txtpp::run(Config { inputs: [], mode: %s, .. })>' % md]
        else:
            try:
                r = subprocess.run(args, cwd=real(BASE), env=e, capture_output=True, timeout=30)
                rc = r.returncode
            except subprocess.TimeoutExpired:
                rc = 'HANG'
        after = snap()
        changed = sorted(k for k in set(before) | set(after) if before.get(k) != after.get(k))
        st = {'mode': md, 'args': args[1:], 'rc': rc, 'expected_ok': exp.ok, 'expected_error': exp.error,
              'changed': [c.decode() for c in changed]}
        if rc == 'HANG' or (rc == 0) != exp.ok:
            bad = True
        outside = [c.decode() for c in changed if c not in exp.allowed]
        if outside:
            bad = True
            st['changed outside the allowed set'] = outside
        if rc not in (0, 'HANG') and exp.kinds == {'cycle'} and md in ('Build', 'InMemoryBuild'):
            missing = [o.decode() for s_, o in exp.built if after.get(o) != exp.fs.get(o)]
            if missing:
                bad = True
                st['not built although they cannot reach the cycle'] = missing
        if rc == 0 and exp.ok:
            diff = [p.decode() for p in sorted(set(after) | set(exp.fs)) if after.get(p) != exp.fs.get(p)]
            if diff:
                bad = True
                st['differs from the reference tree'] = {p: (repr(bytes(after[p.encode()])) if p.encode() in after else None,
                                                             repr(bytes(exp.fs[p.encode()])) if p.encode() in exp.fs else None) for p in diff[:4]}
            ref = dict(exp.fs)
        else:
            ref = dict(after)
        detail['steps'].append(st)
        if bad:
            break
    shutil.rmtree(root, ignore_errors=True)
    return bad, detail


# ----------------------------------------------------------------------------- jobs

H = 'props.project'
ALL = ('.', True)


def _job(prop, name, lay, steps, trailing=True, pre='none', threads=2):
    st = [tuple([x[0], list(x[1])] + list(x[2:])) for x in steps]
    return {'name': 'project[%s] %s' % (lay, name), 'harness': (H, 'h_project'), 'split': 16 if lay.startswith('gen') else 1,
            'params': {'lay': lay, 'inputs': st[0][1], 'recursive': st[0][2], 'trailing': trailing, 'pre': pre, 'history': st, 'threads': threads}}


def jobs(prop, tier):
    B, N, V, C = 'Build', 'InMemoryBuild', 'Verify', 'Clean'
    js = []
    G = 3 if tier == 'quick' else 4
    gen = 'gen%d' % G
    gen_small = 'gen%d' % (G - 1)
    if prop == 'C05':
        # (only m is named: a command that reads a generated file it does not depend on has no defined order w.r.t. that file's build)
        js.append(_job(prop, 'every %d-line source over the dependency menu (self-include = cycle)' % G, gen, [(B, ['m.txt'], False)], pre='stale'))
        js.append(_job(prop, 'same, needed-build', gen_small, [(N, ['m.txt'], False)], pre='stale'))
    if prop in ('C03', 'C04', 'C11'):
        # sources reached through symbolic links (a linked file, a linked sub-directory): processed like any other entry, and their faults count
        for md in ((B, V) if prop != 'C03' else (B,)):
            for rec in (False, True):
                js.append(_job(prop, '%s through symbolic links (failing sources behind them) recursive=%s' % (md, rec), 'links', [(md, ['proj'], rec)]))
        for rec in (False, True):
            js.append(_job(prop, 'Build through symbolic links recursive=%s, then clean' % rec, 'links-ok', [(B, ['proj'], rec), (C, ['proj'], rec)]))
    if prop in ('C03', 'C10', 'C11', 'C18'):
        # the library entry point with an empty input list: nothing is selected, nothing is touched, the run ends
        for md in (B, N, V, C):
            js.append(_job(prop, 'empty input list %s' % md, 'chain', [(md, [], True)], pre='stale'))
    if prop == 'C14':
        for md in (B, N):
            js.append(_job(prop, '%s: tags created before a dependency line and used after it' % md, 'tagdep', [(md, ['m.txt'], False)], pre='stale'))
        js.append(_job(prop, 'same, whole directory, then verify', 'tagdep', [(B, ['.'], False), (V, ['.'], False)]))
    if prop in ('C10', 'C11'):
        # a source that pastes another SOURCE verbatim (`include x.txt.txtpp`): that is a plain include, not a dependency -- the
        # pasted source is not processed unless it is selected itself
        for md in (B, N):
            js.append(_job(prop, '%s: include of a .txtpp file is a plain include' % md, 'tagdep', [(md, ['q.txt'], False)], pre='none'))
    if prop == 'C12':
        for inp in (['a', 'b', 'c', 'd'], ['d', 'c', 'b', 'a'], ['c', 'd']):
            for th in (1, 2):
                js.append(_job(prop, 'sources with different line endings one after the other: %s threads=%d' % (','.join(inp), th), 'mixed-le',
                               [(B, inp, False)], threads=th))
    if prop == 'C05':
        js.append(_job(prop, 'acyclic page that documents include/after of itself inside a write block', 'doc', [(B, ['doc.md'], False)]))
        js.append(_job(prop, 'same, whole directory, needed-build', 'doc', [(N, ['.'], False)]))
    if prop == 'C17':
        js.append(_job(prop, 'TXTPP_FILE of sources reached as dependencies from a sub-directory', 'envdep', [(B, ['d/top.txt'], False)]))
        js.append(_job(prop, 'same, recursive scan', 'envdep', [(B, ['.'], True)], threads=1))
    if prop == 'C03':
        js.append(_job(prop, 'every %d-line source over the dependency menu: m named three ways' % (G - 1), gen_small,
                       [(B, ['m.txt', 'm.txt.txtpp', './m.txt'], False)], pre='stale'))
    if prop == 'C02':
        for md in (B, N):
            js.append(_job(prop, '%s r only, stale outputs everywhere' % md, 'multi-dep', [(md, ['r'], False)], pre='stale'))
            js.append(_job(prop, '%s m only, stale outputs' % md, 'chain', [(md, ['m'], False)], pre='stale'))
            js.append(_job(prop, '%s page only, stale outputs' % md, 'deep', [(md, ['page.html'], False)], pre='stale'))
        for md in (B, N):
            js.append(_job(prop, '%s: every %d-line source over the dependency menu, stale outputs' % (md, G), gen, [(md, ['m.txt'], False)], pre='stale'))
        for md in (B, N):
            js.append(_job(prop, '%s: dependencies with an empty fresh output over older non-empty ones' % md, 'empty-dep', [(md, ['report.txt'], False)], pre='stale'))
            js.append(_job(prop, '%s: one dependency already complete when the dependency list arrives' % md, 'multi-dep', [(md, ['x.txt', 'r'], False)], pre='stale', threads=1))
            js.append(_job(prop, '%s: same, two complete' % md, 'multi-dep', [(md, ['z.txt', 'y.txt', 'r'], False)], pre='stale', threads=1))
        js.append(_job(prop, 'Build all, stale outputs', 'multi-dep', [(B, ['.'], False)], pre='stale', threads=4))
        js.append(_job(prop, 'Build all recursive, stale outputs', 'deep', [(B, ['.'], True)], pre='stale', threads=1))
    elif prop == 'C06':
        for lay in ('chain', 'deep'):
            js.append(_job(prop, 'build, verify', lay, [(B, ['.'], True), (V, ['.'], True)]))
            js.append(_job(prop, 'verify stale outputs', lay, [(V, ['.'], True)], pre='stale'))
        js.append(_job(prop, 'temp file and output of an older version of the source: verify', 'tempinc', [(V, ['v.txt'], False)]))
        js.append(_job(prop, 'same: build, verify, clean, verify', 'tempinc', [(B, ['v.txt'], False), (V, ['.'], False), (C, ['.'], False), (V, ['.'], False)]))
        js.append(_job(prop, 'outputs larger than the I/O buffers: build, verify', 'big', [(B, ['.'], False), (V, ['.'], False)]))
        js.append(_job(prop, 'outputs larger than the I/O buffers: build, needed-build, verify', 'big', [(B, ['.'], False), (N, ['.'], False), (V, ['.'], False)]))
        js.append(_job(prop, 'build all, verify page only (dependencies are verified too)', 'deep', [(B, ['.'], True), (V, ['page.html'], False)]))
        js.append(_job(prop, 'every %d-line source over the dependency menu: build, verify' % (G - 1), gen_small, [(B, ['m.txt'], False), (V, ['m.txt'], False)], pre='stale'))
        js.append(_job(prop, 'every %d-line source over the dependency menu: verify stale' % (G - 1), gen_small, [(V, ['m.txt'], False)], pre='stale'))
        js.append(_job(prop, 'build page, verify all: other is missing', 'deep', [(B, ['page.html'], False), (V, ['.'], True)]))
    elif prop == 'C07':
        for lay in ('chain', 'deep'):
            js.append(_job(prop, 'build, clean', lay, [(B, ['.'], True), (C, ['.'], True)]))
        js.append(_job(prop, 'build all, clean page only', 'deep', [(B, ['.'], True), (C, ['page.html'], False)]))
        js.append(_job(prop, 'build all, clean top directory only', 'deep', [(B, ['.'], True), (C, ['.'], False)]))
        js.append(_job(prop, 'every %d-line source over the dependency menu: build, clean m only' % (G - 1), gen_small, [(B, ['m.txt'], False), (C, ['m.txt'], False)], pre='stale'))
        js.append(_job(prop, 'build all, clean sub only', 'chain', [(B, ['.'], True), (C, ['sub'], False)]))
    elif prop == 'C08':
        js.append(_job(prop, 'dependencies with an empty fresh output over older non-empty ones', 'empty-dep', [(B, ['.'], False), (B, ['.'], False)], pre='stale'))
        for md in (B, N):
            js.append(_job(prop, '%s: one dependency already complete when the dependency list arrives' % md, 'multi-dep', [(md, ['x.txt', 'r'], False)], pre='stale', threads=1))
        for lay in ('chain', 'deep', 'multi-dep'):
            js.append(_job(prop, 'build twice from stale outputs', lay, [(B, ['.'], True), (B, ['.'], True)], pre='stale'))
    elif prop == 'C09':
        js.append(_job(prop, 'every %d-line source over the dependency menu: needed-build twice from stale outputs' % (G - 1), gen_small,
                       [(N, ['m.txt'], False), (N, ['m.txt'], False)], pre='stale'))
        for lay in ('chain', 'deep', 'multi-dep'):
            js.append(_job(prop, 'needed-build from stale outputs, then again', lay, [(N, ['.'], True), (N, ['.'], True)], pre='stale'))
            js.append(_job(prop, 'build then needed-build', lay, [(B, ['.'], True), (N, ['.'], True)]))
    elif prop == 'C10':
        js.append(_job(prop, 'build all, clean page only', 'deep', [(B, ['.'], True), (C, ['page.html'], False)]))
        js.append(_job(prop, 'build all, clean lib (non-recursive)', 'deep', [(B, ['.'], True), (C, ['lib'], False)]))
        js.append(_job(prop, 'build all, clean m only', 'chain', [(B, ['.'], True), (C, ['m'], False)]))
        js.append(_job(prop, 'build all, verify m only', 'chain', [(B, ['.'], True), (V, ['m'], False)]))
        js.append(_job(prop, 'build other only', 'deep', [(B, ['lib/other.txt'], False)], pre='stale'))
        js.append(_job(prop, 'needed-build sub only', 'chain', [(N, ['sub'], False)], pre='stale'))
    elif prop == 'C11':
        for rec in (False, True):
            js.append(_job(prop, 'top directory recursive=%s' % rec, 'odd-dirs', [(B, ['.'], rec)]))
            js.append(_job(prop, 'plain recursive=%s' % rec, 'odd-dirs', [(B, ['plain'], rec)]))
        js.append(_job(prop, 'directory with a source-like name, named', 'odd-dirs', [(B, ['templates.txtpp', 'plain/gen.txtpp.d'], False)]))
        js.append(_job(prop, 'verify recursive after build', 'odd-dirs', [(B, ['.'], True), (V, ['.'], True)]))
        js.append(_job(prop, 'build all, clean page only', 'deep', [(B, ['.'], True), (C, ['page.html'], False)]))
        js.append(_job(prop, 'build all, clean m by three names', 'chain', [(B, ['.'], True), (C, ['m', 'm.txtpp', './m'], False)]))
        js.append(_job(prop, 'build page only: dependencies but not other', 'deep', [(B, ['page.html'], False)]))
        js.append(_job(prop, 'missing target', 'chain', [(B, ['nothing.txt'], False)]))
    elif prop == 'C13':
        for lay, inp, rec in (('chain', ['.'], True), ('chain', ['m'], False), ('deep', ['page.html'], False), ('multi-dep', ['r'], False)):
            for tr in (False, True):
                js.append(_job(prop, 'inputs=%s trailing=%s' % (','.join(inp), tr), lay, [('Build', inp, rec)], trailing=tr))
        js.append(_job(prop, 'every %d-line source over the dependency menu, trailing=False' % G, gen, [(B, ['m.txt'], False)], trailing=False, pre='stale'))
        js.append(_job(prop, 'needed-build trailing=False', 'chain', [(N, ['.'], True)], trailing=False, pre='stale'))
        js.append(_job(prop, 'build off, verify off', 'chain', [(B, ['m'], False), (V, ['m'], False)], trailing=False))
        js.append(_job(prop, 'build on, verify off must fail; build off; verify on must fail', 'chain',
                       [(B, ['m'], False, True), (V, ['m'], False, False), (B, ['m'], False, False), (V, ['m'], False, True), (V, ['m'], False, False)]))
        js.append(_job(prop, 'same for a source ending in a directive', 'deep',
                       [(B, ['lib/sub/foot.html'], False, True), (V, ['lib/sub/foot.html'], False, False), (B, ['.'], True, False), (V, ['.'], True, True)]))
    elif prop == 'C15':
        js.append(_job(prop, 'directives documented inside a write block after a dependency', 'doc', [(B, ['doc.md'], False)]))
        js.append(_job(prop, 'same, whole directory', 'doc', [(B, ['.'], False)]))
        js.append(_job(prop, 'same, verify', 'doc', [(B, ['doc.md'], False), (V, ['doc.md'], False)]))
    return js


def bounds_note(prop, tier):
    n = len(jobs(prop, tier))
    if not n:
        return ''
    g = 3 if tier == 'quick' else 4
    return ('; whole projects through Txtpp::run with the real preprocess (%d histories over the layouts chain / deep / odd-dirs / doc / '
            'multi-dep / tempinc / big with 2 symbolic text bytes each, and every %d- resp. %d-line source over the 14-entry dependency menu), '
            'one fixed schedule, tree compared byte for byte with the project reference semantics' % (n, g, g - 1))
