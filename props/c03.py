"""C03 Every run terminates and completes each required file exactly once.

Same harness as C02 with arbitrary digraphs (cycles, self loops), duplicate / aliased / directory inputs and Clean mode:
the coordinator loop must end on every path (a poll of an empty channel with no task in flight and done != total is a hang),
no result may remain unread, each required file gets exactly one first pass and at most one final pass (exactly one when
it cannot reach a cycle), nothing else is processed.
"""
from . import sched


def jobs(tier):
    js = sched.jobs_c03(tier)
    # lemma behind the abstract task: the first pass reports every .txtpp-backed include / after target as a dependency, whatever the
    # name shape of the producer (a dependency that is not reported is never processed: "success" without its output)
    from .fsprops import DEP_SHAPES
    for shape in range(len(DEP_SHAPES) - 1):
        for kind in ('include', 'after'):
            js.append({'name': 'lemma every dependency is reported shape=%d %s' % (shape, kind), 'harness': ('props.fsprops', 'h_deps'),
                       'params': {'mode': 'Build', 'shape': shape, 'kind': kind, 'stale_output': kind == 'include'}})
    # a command writing more than a pipe holds must not keep the run from ending
    js.append({'name': 'command writing 70000 bytes to stdout', 'harness': ('props.c18', 'h_big_output'), 'params': {'nbytes': 70000, 'stream': 'stdout'},
               'max_steps': 20_000_000})
    from . import project
    js += project.jobs('C03', tier)
    return js


BOUNDS = {'quick': 'all digraphs (self loops included) on <=3 files chosen lazily along the run, input lists with duplicates, output-name and '
                   './ spellings and directories, recursive and non-recursive scanning, every completion order',
          'thorough': 'all digraphs on 3 files for 17 input lists; digraphs on 4 files with out-degree <=1, two selections; failing task among 5 files'}
from . import project as _project
BOUNDS = {k: v + _project.bounds_note('C03', k) for k, v in BOUNDS.items()}
ASSUMPTIONS = ['as C02; aliases are spellings that canonicalize to the same path in the FS model; symbolic links occur only in the project layouts `links` / `links-ok` (a linked source file, a linked sub-directory)',
               'termination = the coordinator loop exits within the step bound on every schedule of the model (real time is not modelled)']
COVERS_REQUIRED = ['acyclic', 'cyclic']


def replay(native, v):
    op = v['data'].get('op')
    if op == 'deps':
        from .fsprops import replay_deps
        return replay_deps(v)
    if op == 'raw':
        from . import c18
        return c18.replay(native, v)
    return sched.replay(native, v)
