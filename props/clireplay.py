"""Native replay of counterexamples of the `main()` harness (c17.h_cli): the real binary with the same sub-command and flags.

Flag placement follows clap's declaration in src/main.rs: `-N` is a top-level flag (accepted before a sub-command), the build
flags (`-n`, `-s`) and the common flags belong to the sub-command when there is one."""
import os
import shutil
import subprocess
import tempfile

from lib import build
from . import ppreplay


def replay(native, v):
    d = v['data']
    cli = ppreplay.cli_path()
    e = dict(os.environ)
    e.pop('TXTPP_FILE', None)
    if d.get('txtpp_file') is not None:
        e['TXTPP_FILE'] = d['txtpp_file']
    sub = d['sub']
    ntn = bool(d.get('no_trailing_newline')) and sub != 'Clean'
    fresh = b'x' if ntn else b'x\n'
    other = b'x\n' if ntn else b'x'
    head = [cli] + (['-N'] if d.get('needed') else []) + ([sub.lower()] if sub else [])
    tail = (['-n'] if ntn else []) + ['-q', 'a.txtpp']
    detail = {'runs': []}
    bad = False

    def run(pre_out):
        root = tempfile.mkdtemp(prefix='replay-cli-', dir=build.scratch_dir())
        open(os.path.join(root, 'a.txtpp'), 'wb').write(b'x\n')
        if pre_out is not None:
            open(os.path.join(root, 'a'), 'wb').write(pre_out)
        before = sorted(os.listdir(root))
        r = subprocess.run(head + tail, cwd=root, env=e, capture_output=True)
        after = {f: open(os.path.join(root, f), 'rb').read() for f in os.listdir(root)}
        shutil.rmtree(root, ignore_errors=True)
        detail['runs'].append({'args': (head + tail)[1:], 'existing output': repr(pre_out), 'rc': r.returncode, 'created': sorted(set(after) - set(before)),
                               'output after': repr(after.get('a'))})
        return r.returncode, after, before
    if d.get('txtpp_file'):
        rc, after, before = run(None)
        return (rc == 0 or 'a' in after), detail          # the recursion guard must refuse to start
    if sub == 'Verify':
        rc, after, _ = run(fresh)
        if rc != 0 or after.get('a') != fresh:
            bad = True                                      # an up-to-date output must verify and stay untouched
        rc, after, _ = run(other)
        if rc == 0 or after.get('a') != other:
            bad = True                                      # a stale output must fail verification and stay untouched
        rc, after, _ = run(None)
        if rc == 0 or 'a' in after:
            bad = True                                      # a missing output must fail verification and not be created
    elif sub == 'Clean':
        rc, after, before = run(fresh)
        if rc != 0 or 'a' in after or any(f not in before for f in after):
            bad = True                                      # clean removes the output and creates nothing
        rc, after, before = run(None)
        if rc != 0 or any(f not in before for f in after):
            bad = True
    else:
        rc, after, _ = run(other)
        if rc != 0 or after.get('a') != fresh:
            bad = True                                      # a build (normal or only-if-needed) leaves the fresh output
    return bad, detail
