"""C01 Output conforms to the documented directive semantics.

The real `preprocess` (MIR: Pp::run / run_internal / iterate_directive / execute_directive / format_directive_output /
IOCtx / TagState / detect_from / add_line) is executed on symbolic source files inside a symbolic file system and
process environment, and compared with the reference semantics of DESIGN.md 4.1 (spec/pp.py): verdict, output bytes,
temp file bytes, command lines.
"""
from mirsym.core import Violation
from mirsym.interp import Interp
from mirsym.values import *
from spec import pp as specpp
from .common import *
from .ppgen import *
from . import ppreplay


def h_conform(m, ctx, nlines, menu_name, trailing=True, first_pass=False, mix_le=False, fixed=None, inc_len=3, out_len=2,
              final_newline=None, le_choices=(b'\n', b'\r\n'), pre_temp_len=None, pre_out_len=None):
    it = Interp(m, ctx)
    source, desc = build_source(ctx, nlines, menu_name, mix_le=mix_le, fixed=fixed, final_newline=final_newline,
                                le_choices=le_choices)
    se = SymEnv(ctx, inc_len=inc_len, out_len=out_len)
    # files of earlier builds may be lying at the generated paths (temp files are kept between builds by design)
    pre_temp = ctx.fresh_bytes('pt', pre_temp_len, ASCII_ALL) if pre_temp_len is not None else None
    pre_out = ctx.fresh_bytes('po', pre_out_len, ASCII_ALL) if pre_out_len is not None else None
    env = se.install(it, source, pre_out=pre_out, pre_temp=pre_temp)
    r = run_preprocess(m, it, 'Build', first_pass, trailing)
    impl_ok = (r.idx == 0)
    out = env.read_file(OUT)
    tmp = env.read_file(WORK + b'/t.tmp')
    data = {'op': 'pp', 'lines': desc, 'source': syms_of(source), 'inc': syms_of(se.inc_content),
            'cmd_results': [(code, syms_of(o)) for _, code, o in se.cmd_results], 'trailing': trailing,
            'pre_temp': syms_of(pre_temp) if pre_temp is not None else None, 'pre_out': syms_of(pre_out) if pre_out is not None else None,
            'source_shown': show_bytes(source)}
    ctx.notes['lines'] = desc
    ctx.notes['native_check'] = {'kind': 'pp', 'data': {k: data[k] for k in ('source', 'inc', 'cmd_results', 'trailing', 'pre_temp', 'pre_out')}, 'ok': impl_ok,
                                 'out': syms_of(out) if (impl_ok and out is not None) else None}
    try:
        spec = specpp.process(ctx, source, se, trailing)
    except SpecMismatch as e:
        violation(ctx, 'run: ' + str(e), data)
    if spec.ok and se.spec_cmd_i != len(se.cmd_results):
        violation(ctx, 'run: the implementation executed %d commands, the semantics prescribe %d' % (len(se.cmd_results), se.spec_cmd_i), data)
    if impl_ok != spec.ok:
        violation(ctx, 'verdict differs: implementation %s, semantics %s (%s)' % ('Ok' if impl_ok else 'Err', 'Ok' if spec.ok else 'Err', spec.error), data)
    if not impl_ok:
        ctx.cover('error:' + str(spec.error))
        return
    ctx.cover('ok')
    for nm in set(desc):
        ctx.cover('line:' + nm)
    if out is None:
        violation(ctx, 'successful build left no output file', data)
    check_bytes_equal(ctx, out, spec.output, 'output bytes differ from the documented semantics', data)
    if spec.temps:
        want = spec.temps[-1][1]
        ctx.cover('temp_written')
        if tmp is None:
            violation(ctx, 'temp file not written', data)
        check_bytes_equal(ctx, tmp, want, 'temp file bytes differ from the documented semantics', data)
    elif pre_temp is not None:
        if tmp is None:
            violation(ctx, 'a file that is not a temp target of this build was removed', data)
        check_bytes_equal(ctx, tmp, pre_temp, 'a file that is not a temp target of this build was modified', data)
    elif tmp is not None:
        violation(ctx, 'temp file written although no temp directive was executed', data)


H = 'props.c01'


def validate_samples(native, samples):
    return ppreplay.validate_pp_samples(native, samples)


def jobs(tier):
    js = []
    if tier == 'quick':
        for first in [n for n, _ in menu('small')]:
            js.append({'name': 'small 2 lines first=%s' % first, 'harness': (H, 'h_conform'),
                       'params': {'nlines': 2, 'menu_name': 'small', 'fixed': [first]}})
        for first in ['run', 'write', 'temp', 'include f', 'tag A', 'empty']:
            js.append({'name': 'small 3 lines first=%s LF' % first, 'harness': (H, 'h_conform'),
                       'params': {'nlines': 3, 'menu_name': 'small', 'fixed': [first], 'le_choices': (b'\n',), 'inc_len': 2, 'out_len': 1},
                       'split': 4})
        for first in ['write', 'include f', 'run', 'text']:
            js.append({'name': 'indent 2 lines first=%s' % first, 'harness': (H, 'h_conform'),
                       'params': {'nlines': 2, 'menu_name': 'indent', 'fixed': [first]}})
        for ptl in (1, 3, 5):
            js.append({'name': 'temp over an older temp file of %d bytes' % ptl, 'harness': (H, 'h_conform'),
                       'params': {'nlines': 2, 'menu_name': 'small', 'fixed': ['temp', 'cont prefix'], 'le_choices': (b'\n',), 'pre_temp_len': ptl,
                                  'final_newline': True}})
        js.append({'name': 'text over an older output of 5 bytes', 'harness': (H, 'h_conform'),
                   'params': {'nlines': 1, 'menu_name': 'small', 'fixed': ['text'], 'le_choices': (b'\n',), 'pre_out_len': 5}})
        # a file that is written (temp) and included more than once in one source: every include sees what is on disk at that moment
        js.append({'name': 'temp / include it / temp again / include it again', 'harness': (H, 'h_conform'),
                   'params': {'nlines': 6, 'menu_name': 'small+', 'fixed': ['temp', 'cont prefix', 'include t.tmp', 'temp other', 'cont plus', 'include t.tmp'],
                              'le_choices': (b'\n',), 'final_newline': True}})
        js.append({'name': 'include a pre-existing file, overwrite it by temp, include it again', 'harness': (H, 'h_conform'),
                   'params': {'nlines': 4, 'menu_name': 'small+', 'fixed': ['include t.tmp', 'temp', 'cont prefix', 'include t.tmp'],
                              'le_choices': (b'\n',), 'final_newline': True, 'pre_temp_len': 2}})
        for sc in (['temp tab', 'cont hash'], ['run tab', 'cont hash'], ['empty tab', 'text']):
            js.append({'name': 'TAB after the directive name is text: ' + '/'.join(sc), 'harness': (H, 'h_conform'),
                       'params': {'nlines': len(sc), 'menu_name': 'small+', 'fixed': sc, 'le_choices': (b'\n',)}})
        for fill in (8189, 8190):
            js.append({'name': 'first line of %d+2 bytes, then an include' % fill, 'harness': ('props.c16', 'h_long_first_line'),
                       'params': {'fill': fill, 'second': b'-TXTPP#include f'}, 'max_steps': 8_000_000})
        js.append({'name': 'small 1 line', 'harness': (H, 'h_conform'), 'params': {'nlines': 1, 'menu_name': 'small'}})
        js.append({'name': 'small 1 line no-trailing', 'harness': (H, 'h_conform'), 'params': {'nlines': 1, 'menu_name': 'small', 'trailing': False}})
        js.append({'name': 'empty file', 'harness': (H, 'h_conform'), 'params': {'nlines': 0, 'menu_name': 'small'}})
        js.append({'name': 'first pass = execute pass without deps', 'harness': (H, 'h_conform'),
                   'params': {'nlines': 2, 'menu_name': 'small', 'first_pass': True, 'le_choices': (b'\n',)}, 'split': 8})
    else:
        for first in [n for n, _ in menu('small')]:
            for second in [n for n, _ in menu('small')]:
                js.append({'name': 'small 3 lines %s/%s' % (first, second), 'harness': (H, 'h_conform'),
                           'params': {'nlines': 3, 'menu_name': 'small', 'fixed': [first, second]}})
        for first in [n for n, _ in menu('full')]:
            js.append({'name': 'full 2 lines first=%s' % first, 'harness': (H, 'h_conform'),
                       'params': {'nlines': 2, 'menu_name': 'full', 'fixed': [first]}})
        for first in ['run', 'write', 'temp', 'tag A']:
            for second in ['cont prefix', 'cont spaces', 'cont bare', 'tagtext', 'run', 'tag AB', 'include f']:
                js.append({'name': 'small 4 lines %s/%s LF' % (first, second), 'harness': (H, 'h_conform'),
                           'params': {'nlines': 4, 'menu_name': 'small', 'fixed': [first, second], 'le_choices': (b'\n',),
                                      'inc_len': 2, 'out_len': 1, 'final_newline': True}, 'split': 4})
        for ptl in (1, 2, 3, 4, 5, 6):
            for sc in (['temp', 'cont prefix'], ['temp'], ['temp', 'cont prefix', 'cont prefix']):
                js.append({'name': 'temp over an older temp file of %d bytes %s' % (ptl, '/'.join(sc)), 'harness': (H, 'h_conform'),
                           'params': {'nlines': len(sc), 'menu_name': 'small', 'fixed': sc, 'le_choices': (b'\n',), 'pre_temp_len': ptl}})
        js.append({'name': 'mixed line endings 3 lines', 'harness': (H, 'h_conform'),
                   'params': {'nlines': 3, 'menu_name': 'small', 'mix_le': True, 'inc_len': 2, 'out_len': 1}, 'split': 16})
        js.append({'name': 'no-trailing 2 lines', 'harness': (H, 'h_conform'), 'params': {'nlines': 2, 'menu_name': 'small', 'trailing': False}, 'split': 16})
        js.append({'name': 'first pass 3 lines', 'harness': (H, 'h_conform'),
                   'params': {'nlines': 3, 'menu_name': 'small', 'first_pass': True, 'le_choices': (b'\n',), 'inc_len': 2, 'out_len': 1}, 'split': 16})
    return js


BOUNDS = {
    'quick': 'sources of 0-3 lines drawn from the `small`/`indent` line menus (text, blank, tag-bearing text, the 7 directives with '
             'prefix "-"/"// "/none and indentation, the 3 continuation forms + mismatching ones), symbolic argument / text bytes, '
             'LF and CRLF sources with and without final newline, included file of <=3 symbolic bytes over {o,LF,CR}, command stdout '
             '<=2 bytes over {o,LF} and exit status 0/1, trailing-newline option on/off; one source file per run',
    'thorough': 'as quick with all 3-line sources over the small menu, 2-line sources over the full menu (all prefixes x indentations), '
                'selected 4-line sources, per-line mixed LF/CRLF',
}
ASSUMPTIONS = ['input domain D1-D12 of DESIGN.md 4.3', 'multi-file composition is C02; here included files are plain files',
               'file system / process spawning are contract models (mirsym/models_env.py): documented std::fs, std::process behaviour']
COVERS_REQUIRED = ['ok', 'temp_written', 'error:multi-line directive without prefix', 'error:command failed',
                   'error:include target cannot be read', 'error:temp target is a txtpp file', 'error:tag cannot be created',
                   'error:unused tag at end of file']


def replay(native, v):
    d = v['data']
    model = d['model']
    trailing = d.get('trailing', True)
    nat = ppreplay.run_native(d, model, trailing=trailing)
    spec, env = ppreplay.spec_concrete(d, model, trailing)
    nat_ok = nat['rc'] == 0
    detail = {'source': repr(ppreplay.conc(d['source'], model)), 'included f': repr(ppreplay.conc(d['inc'], model)),
              'commands': [(c, repr(ppreplay.conc(o, model))) for c, o in d.get('cmd_results', [])],
              'native_rc': nat['rc'], 'native_output': repr(nat['output']), 'native_temp': repr(nat['temp']),
              'spec_ok': spec.ok, 'spec_error': spec.error, 'spec_output': repr(bytes(spec.output)),
              'spec_temps': {k.decode(): repr(val) for k, val in env.temps.items()}}
    bad = False
    detail['native_cmds'] = [repr(c) for c in nat['cmds']]
    detail['spec_cmds'] = [repr(c) for c in env.cmds]
    if spec.ok and nat['cmds'] != env.cmds:
        bad = True
    if nat['cmds'] != env.cmds[:len(nat['cmds'])]:
        bad = True
    if nat_ok != spec.ok:
        bad = True
    elif nat_ok:
        if nat['output'] != bytes(spec.output):
            bad = True
        want_t = env.temps.get(b't.tmp')
        if want_t != nat['temp']:
            bad = True
    return bad, detail
