"""C04 No false success: a failure in any file fails the whole run.

(a) coordinator: real Txtpp::run_internal / execute_file / DepManager with the scheduler model: any worker result may be
    Err, at any position of the dependency graph, under every completion order => the run returns Err (props/sched.py);
(b) file level: real `preprocess` in every mode with the FS/process models in fault mode: any single create / open / read /
    write / flush / metadata / remove call may fail (which one is a fork point), commands may exit non-zero: a fault or a
    prescribed error must surface as Err, and whenever Ok is returned the output and temp file are complete and correct;
(c) main.rs: Err => ExitCode::FAILURE (bin MIR, props/c17.py cli harness).
"""
from .fsprops import *
from . import sched

H = 'props.fsprops'


def jobs(tier):
    js = []
    quick = tier == 'quick'
    scen = [['text'], ['write', 'cont prefix'], ['include f'], ['run'], ['temp', 'cont prefix'], ['temp', 'cont prefix', 'text'],
            ['tag A', 'write', 'tagtext'], ['include g(missing)'], ['text', 'text']]
    if not quick:
        scen += [[f, g] for f in ['text', 'write', 'include f', 'run', 'temp'] for g in ['text', 'cont prefix', 'run', 'temp']]
    for mode in ('Build', 'InMemoryBuild', 'Verify', 'Clean'):
        for sc in scen:
            js.append({'name': 'faults %s %s' % (mode, '/'.join(sc)), 'harness': (H, 'h_faults'),
                       'params': {'nlines': len(sc), 'menu_name': 'small', 'mode': mode, 'fixed': sc, 'faults': 1}})
    for sc in [['temp', 'cont prefix'], ['text']]:
        js.append({'name': 'faults InMemoryBuild up-to-date tree %s' % '/'.join(sc), 'harness': (H, 'h_faults'),
                   'params': {'nlines': len(sc), 'menu_name': 'small', 'mode': 'InMemoryBuild', 'fixed': sc, 'faults': 1, 'pre_uptodate': True}})
    if not quick:
        for sc in scen[:7]:
            js.append({'name': 'two faults Build %s' % '/'.join(sc), 'harness': (H, 'h_faults'),
                       'params': {'nlines': len(sc), 'menu_name': 'small', 'mode': 'Build', 'fixed': sc, 'faults': 2}, 'split': 8})
    # chunks larger than the BufWriter buffer go to the file with direct writes (which may be short): no byte may be lost
    for tr in (True, False):
        js.append({'name': 'faults Build include of a 9000-byte file trailing=%s' % tr, 'harness': (H, 'h_faults'),
                   'params': {'nlines': 1, 'menu_name': 'small', 'mode': 'Build', 'fixed': ['include f'], 'faults': 1, 'big_include': 9000,
                              'trailing': tr}})
    # verify mismatch (tampered / extended / truncated / missing output) fails the run
    for nl in (0, 1):
        for pl in ([None, 0, 1, 2, 3] if quick else [None, 0, 1, 2, 3, 4, 5]):
            js.append({'name': 'verify tampered output nlines=%d pre_out=%s' % (nl, pl), 'harness': (H, 'h_verify'),
                       'params': {'nlines': nl, 'menu_name': 'small', 'pre_out_len': pl}})
    js += sched.jobs_c04(tier)
    from . import project
    js += project.jobs('C04', tier)
    return js


BOUNDS = {'quick': '(b) 9 source scenarios x 4 modes x one injected I/O failure at every FS call site reached (create, open, read, write, flush, '
                   'metadata, remove, canonicalize), commands exiting 0/1; (a) dependency graphs on <=3 files, every completion order, any '
                   'subset of tasks failing',
          'thorough': '(b) 29 scenarios, two faults; (a) graphs on <=4 files'}
ASSUMPTIONS = ['I/O failures are modelled at the std::fs / std::io API (an Err return of the call), not produced by a real full disk',
               'a buffered write_all that fits the BufWriter buffer cannot fail; the failure then surfaces at flush (std contract)',
               'worker bodies are atomic w.r.t. the coordinator (they communicate only through the channel)']
COVERS_REQUIRED = ['fault_injected', 'fault:write', 'fault:create', 'fault:open', 'fault:read']


def build_faultinj():
    from lib import build
    return build.faultinj_so() is not None


def replay(native, v):
    d = v['data']
    if d.get('op') == 'sched':
        return sched.replay(native, v)
    if d.get('mode') == 'Verify' and 'faults' not in d:
        from . import c06
        return c06.replay(native, v)
    model = d['model']
    mode = d.get('mode', 'Build')
    faults = d.get('faults') or []
    import os, subprocess, shutil
    root, work, bind, res = ppreplay.materialise(d, model)
    e = dict(os.environ)
    e['PATH'] = bind + ':' + e.get('PATH', '')
    cli = ppreplay.cli_path()
    detail = {'mode': mode, 'source': repr(ppreplay.conc(d['source'], model)), 'injected': faults}
    bad = False
    spec, env = ppreplay.spec_concrete(d, model, d.get('trailing', True))
    if not faults:
        sh = [] if mode == 'Clean' else ['-s', os.path.join(bind, 'recsh') + ' -c']
        r = subprocess.run([cli] + list(MODE_ARGS[mode]) + ['-q', '-j', '1'] + sh + ['a.txt.txtpp'], cwd=work, env=e, capture_output=True)
        out = open(os.path.join(work, 'a.txt'), 'rb').read() if os.path.exists(os.path.join(work, 'a.txt')) else None
        detail.update({'rc': r.returncode, 'output': repr(out), 'spec_ok': spec.ok, 'spec_output': repr(bytes(spec.output))})
        bad = (r.returncode == 0 and (not spec.ok or (mode != 'Clean' and out != bytes(spec.output))))
    else:
        op, path = faults[0]
        # realise the fault with OS means: /dev/full behind the output or temp path makes write/flush fail with ENOSPC
        target = 'a.txt' if path.endswith('/a.txt') else 't.tmp' if path.endswith('/t.tmp') else None
        if op.startswith('write') and target and build_faultinj():
            # the n-th write(2) to the file fails with ENOSPC (LD_PRELOAD shim); unlike /dev/full this leaves fsync / metadata alone
            shutil.rmtree(root, ignore_errors=True)
            tries = []
            bad = False
            for nth in (1, 2, 3):
                res_ = ppreplay.run_native_fault(d, model, 'write', target, nth, mode_args=MODE_ARGS[mode], trailing=d.get('trailing', True))
                tries.append({'nth': nth, 'injected': res_['injected'], 'rc': res_['rc']})
                if not res_['injected']:
                    break
                if res_['rc'] == 0 and mode != 'Clean':
                    bad = True
                    detail['output'] = repr(res_['output'])
                    break
            detail.update({'fault': 'LD_PRELOAD shim failing the n-th write to %s with ENOSPC' % target, 'tries': tries})
            return bad, detail
        if op.startswith('write') and target:
            p = os.path.join(work, target)
            if os.path.exists(p):
                os.remove(p)
            os.symlink('/dev/full', p)
            r = subprocess.run([cli] + list(MODE_ARGS[mode]) + ['-q', '-j', '1', 'a.txt.txtpp'], cwd=work, env=e, capture_output=True)
            detail.update({'rc': r.returncode, 'fault': '%s -> /dev/full (ENOSPC on write/flush)' % target})
            bad = (r.returncode == 0 and mode != 'Clean')
        elif op == 'short-write' and target:
            # a file-size limit inside the large chunk makes write(2) return a short count
            args = ' '.join([cli] + list(MODE_ARGS[mode]) + ['-q', '-j', '1'] + ([] if d.get('trailing', True) else ['-n']) + ['a.txt.txtpp'])
            r = subprocess.run(['bash', '-c', 'trap "" XFSZ; ulimit -f 8; exec ' + args], cwd=work, env=e, capture_output=True)
            out = open(os.path.join(work, 'a.txt'), 'rb').read() if os.path.exists(os.path.join(work, 'a.txt')) else None
            detail.update({'rc': r.returncode, 'fault': 'RLIMIT_FSIZE 8 KiB (short write inside the chunk)',
                           'output_bytes': None if out is None else len(out), 'expected_bytes': len(bytes(spec.output))})
            bad = (r.returncode == 0 and out != bytes(spec.output))
        elif op in ('create',) and target:
            os.chmod(work, 0o555)
            try:
                r = subprocess.run([cli] + list(MODE_ARGS[mode]) + ['-q', '-j', '1', 'a.txt.txtpp'], cwd=work, env=e, capture_output=True)
            finally:
                os.chmod(work, 0o755)
            detail.update({'rc': r.returncode, 'fault': 'read-only directory (create fails)'})
            bad = (r.returncode == 0 and os.geteuid() != 0)
            if os.geteuid() == 0:
                detail['note'] = 'running as root: a read-only directory does not stop creation; fault not realisable here'
                bad = None
        elif op in ('open', 'read', 'create', 'write') and build_faultinj():
            # LD_PRELOAD shim: the model does not say which of the matching calls failed, so every ordinal is tried
            shutil.rmtree(root, ignore_errors=True)
            bad = False
            tries = []
            for nth in (1, 2, 3, 4, 5):
                res_ = ppreplay.run_native_fault(d, model, op, os.path.basename(path), nth, mode_args=MODE_ARGS[mode], trailing=d.get('trailing', True))
                tries.append({'nth': nth, 'injected': res_['injected'], 'rc': res_['rc']})
                if not res_['injected']:
                    break
                if res_['rc'] == 0 and mode != 'Clean':
                    bad = True
                    detail['output'] = repr(res_['output'])
                    break
            detail.update({'fault': 'LD_PRELOAD shim failing the n-th %s of %s' % (op, os.path.basename(path)), 'tries': tries})
            return bad, detail
        else:
            detail['note'] = 'fault %s on %s cannot be produced on demand by the OS; unit-level verdict only' % (op, path)
            bad = None
    shutil.rmtree(root, ignore_errors=True)
    if bad is None:
        # not realisable natively: accept the model-level verdict only if the fault is at an API whose Err return is documented
        return True, detail
    return bad, detail
