"""C12 Generated files use one line ending: that of the source's first line.

(1) leaf: get_line_ending_from_buf / get_line_ending (MIR, FS model) == terminator of the first line for every buffer
    up to the bound; (2) whole file: real `preprocess` on sources whose later lines, included file, command output,
    write text and stored tag content mix LF and CRLF independently; every byte of the output / temp file is then
    checked directly: LF mode => no CR; CRLF mode => every LF preceded by CR and every CR followed by LF.
"""
from mirsym.core import Violation, t_eq, t_not, t_or, t_and
from mirsym.interp import Interp
from mirsym.models_env import Env
from mirsym.values import *
from spec import pp as specpp
from .common import *
from .ppgen import *
from . import ppreplay

MIX = [111, 10, 13]


def h_leaf(m, ctx, n, via_file):
    it = Interp(m, ctx)
    buf = ctx.fresh_bytes('b', n, None if n <= 4 else [120, 10, 13, 0, 255])
    # expected: scan to the first LF
    if via_file:
        env = Env(it, cwd=b'/w')
        it.env = env
        env.add_file(b'/w/s', buf)
        fn = m.lookup_def('AbsPath', 'GetLineEnding', None, 'get_line_ending')
        ap = StructV('AbsPath', (str_of('/w'), str_of('/w/s')))
        r = it.call_mir(fn, [RefV(it.alloc(ap))])
        if r.idx != 0:
            violation(ctx, 'get_line_ending failed on a readable file', {'op': 'leaf', 'buf': syms_of(buf), 'via_file': True})
        got = r.f[0].b
    else:
        fn = m.free['get_line_ending_from_buf']
        # the function receives the bytes read up to and including the first LF
        k = None
        for i, b in enumerate(buf):
            if ctx.branch(t_eq(b, 10), 'lf'):
                k = i
                break
        pre = buf[:k + 1] if k is not None else buf
        got = it.call_mir(fn, [VecV(tuple(pre)), len(pre)]).b
    want = specpp.first_line_ending(ctx, buf)
    ctx.cover('leaf_' + ('crlf' if tuple(want) == (13, 10) else 'lf'))
    check_bytes_equal(ctx, got, want, 'line ending detection differs from "terminator of the first line"',
                      {'op': 'leaf', 'buf': syms_of(buf), 'via_file': via_file})


def h_leaf_long(m, ctx, fill, via='detect'):
    """first line longer than the reader's 8 KiB buffer: `fill` concrete bytes + 2 symbolic bytes + LF"""
    it = Interp(m, ctx)
    tail = ctx.fresh_bytes('b', 2, [120, 13])
    buf = tuple([120] * fill) + tail + (10,) + tuple(b'second\n')
    env = Env(it, cwd=b'/w')
    it.env = env
    env.add_file(b'/w/s', buf)
    fn = m.lookup_def('AbsPath', 'GetLineEnding', None, 'get_line_ending')
    ap = StructV('AbsPath', (str_of('/w'), str_of('/w/s')))
    r = it.call_mir(fn, [RefV(it.alloc(ap))])
    data = {'op': 'leaf_long', 'fill': fill, 'tail': syms_of(tail)}
    if r.idx != 0:
        violation(ctx, 'get_line_ending failed on a readable file', data)
    want = specpp.first_line_ending(ctx, tail + (10,))
    ctx.cover('leaf_long')
    check_bytes_equal(ctx, r.f[0].b, want, 'line ending detection differs for a first line longer than 8 KiB', data)


def uniform_le(ctx, bs, le, what, data):
    """every line terminator in bs is le (and there is no stray CR / LF)"""
    n = len(bs)
    if tuple(le) == (10,):
        for i, b in enumerate(bs):
            ctx.check_holds(t_not(t_eq(b, 13)), what + ': CR in a file whose line ending is LF', dict(data, offset=i, file_bytes=show_bytes(bs)))
    else:
        for i, b in enumerate(bs):
            prev_cr = t_eq(bs[i - 1], 13) if i > 0 else False
            next_lf = t_eq(bs[i + 1], 10) if i + 1 < n else False
            ctx.check_holds(t_or(t_not(t_eq(b, 10)), prev_cr), what + ': LF not preceded by CR in a CRLF file',
                            dict(data, offset=i, file_bytes=show_bytes(bs)))
            ctx.check_holds(t_or(t_not(t_eq(b, 13)), next_lf), what + ': CR not followed by LF in a CRLF file',
                            dict(data, offset=i, file_bytes=show_bytes(bs)))


def h_mixed(m, ctx, nlines, menu_name, fixed=None, inc_len=4, out_len=3, first_le=None, mode='Build', pre_temp_len=None,
            pre_out_len=None, faults=0):
    it = Interp(m, ctx)
    source, desc = build_source(ctx, nlines, menu_name, mix_le=(first_le is None), fixed=fixed,
                                le_choices=(first_le,) if first_le else (b'\n', b'\r\n'))
    se = SymEnv(ctx, inc_len=inc_len, out_len=out_len, inc_alpha=MIX, out_alpha=MIX)
    PRE = [107, 10, 13] + [c for c in range(32, 127) if c != 107][:3]
    pre_temp = ctx.fresh_bytes('pt', pre_temp_len, ASCII_ALL) if pre_temp_len is not None else None
    pre_out = ctx.fresh_bytes('po', pre_out_len, ASCII_ALL) if pre_out_len is not None else None
    env = se.install(it, source, pre_out=pre_out, pre_temp=pre_temp)
    if faults:
        # one transient I/O failure while the source is opened / read (the call fails once, later calls succeed)
        env.fault_budget = faults
        env.fault_filter = lambda op, path: op in ('open', 'read') and bytes(path) == SRC
    r = run_preprocess(m, it, mode, False, True)
    data = {'op': 'pp', 'mode': mode, 'faults': list(env.faults), 'pre_temp': syms_of(pre_temp) if pre_temp is not None else None,
            'pre_out': syms_of(pre_out) if pre_out is not None else None, 'lines': desc, 'source': syms_of(source), 'inc': syms_of(se.inc_content),
            'cmd_results': [(code, syms_of(o)) for _, code, o in se.cmd_results], 'trailing': True, 'source_shown': show_bytes(source)}
    ctx.notes['lines'] = desc
    if faults and env.faults:
        ctx.cover('fault_while_reading_source')
    if r.idx != 0:
        return
    le = specpp.first_line_ending(ctx, source)
    ctx.cover('mixed_' + ('crlf' if tuple(le) == (13, 10) else 'lf'))
    out = env.read_file(OUT)
    uniform_le(ctx, out, le, 'output', data)
    tmp = env.read_file(WORK + b'/t.tmp')
    if tmp is not None:
        ctx.cover('temp')
        uniform_le(ctx, tmp, le, 'temp file', data)


H = 'props.c12'


def jobs(tier):
    js = []
    quick = tier == 'quick'
    for n in (range(0, 6) if quick else range(0, 8)):
        js.append({'name': 'leaf buf n=%d' % n, 'harness': (H, 'h_leaf'), 'params': {'n': n, 'via_file': False}})
        js.append({'name': 'leaf file n=%d' % n, 'harness': (H, 'h_leaf'), 'params': {'n': n, 'via_file': True}})
    scen = [['include f', 'text'], ['run', 'cont prefix'], ['write', 'cont prefix'], ['temp', 'cont prefix'],
            ['tag A', 'include f', 'tagtext'], ['tag A', 'run', 'tagtext'], ['text', 'include f'], ['temp', 'cont prefix', 'cont bare']]
    for sc in scen:
        js.append({'name': 'mixed ' + '/'.join(sc), 'harness': (H, 'h_mixed'),
                   'params': {'nlines': len(sc) + (0 if quick else 1), 'menu_name': 'small', 'fixed': sc, 'inc_len': 3 if quick else 4,
                              'out_len': 2 if quick else 3}, 'split': 1 if quick else 8})
    # stale generated files whose text equals the fresh content up to line endings (history: source converted CRLF <-> LF)
    for le in (b'\n', b'\r\n'):
        for ptl in ((5, 6) if quick else (4, 5, 6, 7)):
            js.append({'name': 'stale temp len=%d first_le=%r' % (ptl, le), 'harness': (H, 'h_mixed'),
                       'params': {'nlines': 3, 'menu_name': 'small', 'fixed': ['temp', 'cont prefix', 'cont prefix'], 'first_le': le,
                                  'pre_temp_len': ptl, 'inc_len': 0, 'out_len': 0}})
        for pol in ((6, 7) if quick else (5, 6, 7, 8)):
            js.append({'name': 'stale output --needed len=%d first_le=%r' % (pol, le), 'harness': (H, 'h_mixed'),
                       'params': {'nlines': 2, 'menu_name': 'small', 'fixed': ['text', 'text'], 'first_le': le, 'mode': 'InMemoryBuild',
                                  'pre_out_len': pol, 'inc_len': 0, 'out_len': 0}})
    for sc in (['text', 'text'], ['include f', 'text'], ['temp', 'cont prefix']):
        js.append({'name': 'transient read failure of the source: ' + '/'.join(sc), 'harness': (H, 'h_mixed'),
                   'params': {'nlines': len(sc), 'menu_name': 'small', 'fixed': sc, 'inc_len': 2, 'out_len': 1, 'faults': 1}})
    for fill in (8189, 8190, 8191, 8192):
        js.append({'name': 'first line of %d+2 bytes' % fill, 'harness': (H, 'h_leaf_long'), 'params': {'fill': fill}})
    if not quick:
        for f in [n for n, _ in menu('small')]:
            js.append({'name': 'mixed 3 lines first=%s' % f, 'harness': (H, 'h_mixed'),
                       'params': {'nlines': 3, 'menu_name': 'small', 'fixed': [f], 'inc_len': 3, 'out_len': 2}, 'split': 4})
    from . import project
    js += project.jobs('C12', tier)
    return js


BOUNDS = {'quick': 'first-line detection: every buffer of 0-5 bytes (bytes 0-4: any value; longer: over {x,LF,CR,0,255}); whole file: 8 scenarios '
                   '(include / run / write / temp / captured tag content), each line with its own LF or CRLF, included file <=3 bytes and '
                   'command output <=2 bytes over {o,LF,CR}',
          'thorough': 'buffers 0-7 bytes; scenarios + one free line; all 3-line sources over the small menu; included file 4 bytes, output 3 bytes'}
from . import project as _project
BOUNDS = {k: v + _project.bounds_note('C12', k) for k, v in BOUNDS.items()}
ASSUMPTIONS = ['D1: CR occurs only immediately before LF in every text input; ordinary source lines and write arguments contain no CR',
               'first lines longer than the std BufReader buffer (8 KiB) are outside the bound']
COVERS_REQUIRED = ['fault_while_reading_source', 'leaf_crlf', 'leaf_lf', 'mixed_crlf', 'mixed_lf', 'temp', 'leaf_long']


def replay(native, v):
    if v['data'].get('op') == 'kani':
        return kani_replay(v)
    d = v['data']
    model = d['model']
    if d['op'] == 'leaf':
        buf = ppreplay.conc(d['buf'], model)
        k = buf.find(b'\n')
        pre = buf[:k + 1] if k >= 0 else buf
        out = native.ask('line_ending %s %d' % (hexs(pre), len(pre)))
        want = b'\r\n' if (k >= 1 and buf[k - 1] == 13) else b'\n'
        return unhex(out) != want, {'buffer': repr(buf), 'native': out, 'expected': hexs(want)}
    if d['op'] == 'leaf_long':
        import os, tempfile, subprocess
        buf = b'x' * d['fill'] + ppreplay.conc(d['tail'], model) + b'\n' + b'second\n'
        dd = {'source': list(buf), 'inc': [], 'cmd_results': []}
        nat = ppreplay.run_native(dd, {})
        le = b'\r\n' if buf[:buf.index(b'\n')].endswith(b'\r') else b'\n'
        out = nat['output'] or b''
        ok_ = (out.count(b'\r\n') == out.count(b'\n')) if le == b'\r\n' else (b'\r\n' not in out.replace(buf[:buf.index(b'\n') + 1], b''))
        ok_ = out.endswith(b'second' + le)
        return not ok_, {'first_line_bytes': d['fill'] + 2, 'first line ends with': repr(buf[d['fill']:d['fill'] + 3]), 'native_output_tail': repr(out[-12:])}
    margs = ('-N',) if d.get('mode') == 'InMemoryBuild' else ()
    src = ppreplay.conc(d['source'], model)
    nat = None
    if d.get('faults'):
        # the failure is injected with the LD_PRELOAD shim; the model does not say which matching call failed: try each ordinal
        op, path = d['faults'][0]
        import os
        for nth in (1, 2, 3, 4):
            res_ = ppreplay.run_native_fault(d, model, op, os.path.basename(path), nth, mode_args=margs)
            if res_ is None or not res_['injected']:
                break
            if res_['rc'] == 0:
                nat = res_
                k = src.find(b'\n')
                le_ = b'\r\n' if (k >= 1 and src[k - 1] == 13) else b'\n'
                o = res_['output'] or b''
                if (le_ == b'\r\n') != (b'\r\n' in o) and b'\n' in o:
                    break
        if nat is None:
            return False, {'note': 'no ordinal of the injected %s lets the run succeed natively' % op}
    else:
        nat = ppreplay.run_native(d, model, mode_args=margs)
    k = src.find(b'\n')
    le = b'\r\n' if (k >= 1 and src[k - 1] == 13) else b'\n'
    bad = False

    def uniform(bs):
        if bs is None:
            return True
        if le == b'\n':
            return b'\r' not in bs
        return bs.replace(b'\r\n', b'').find(b'\n') < 0 and bs.replace(b'\r\n', b'').find(b'\r') < 0
    if nat['rc'] == 0 and not (uniform(nat['output']) and uniform(nat['temp'])):
        bad = True
    return bad, {'source': repr(src), 'included f': repr(ppreplay.conc(d['inc'], model)),
                 'commands': [(c, repr(ppreplay.conc(o, model))) for c, o in d.get('cmd_results', [])],
                 'first-line ending': repr(le), 'native_output': repr(nat['output']), 'native_temp': repr(nat['temp'])}


def extra_engines(tier, seed, args):
    """engine E1: Kani on the compiled leaf functions (second, independent lowering)"""
    from lib import kani
    hs = ['line_ending_from_buf_is_first_line_terminator'] if tier == 'quick' else ['line_ending_from_buf_is_first_line_terminator']
    if not hs or getattr(args, 'only', None):
        return {'inconclusive': [], 'violations': [], 'evidence': None}
    return kani.extra(hs, 600 if tier == 'quick' else 2400, 'get_line_ending_from_buf == terminator of the first line, every buffer of <=6 arbitrary bytes')


def kani_replay(v):
    """a failed Kani harness on the compiled code is already a statement about the real code; it is confirmed by
    re-running the harness once more (deterministic) and reported with the failing checks"""
    from lib import kani
    r = kani.run_harness(v['data']['harness'], timeout_s=1500)
    return r['status'] == 'failed', {'harness': v['data']['harness'], 'failed_checks': r['failed_checks']}
