"""C09 --needed equals a normal build and rewrites nothing that is unchanged.

Self-composition on the real code: `preprocess` in InMemoryBuild mode and in Build mode from the same symbolic pre-state
of the generated paths: equal verdict, equal final bytes; the FS mutation log shows that an output (in --needed mode) or a
temp file (every non-clean mode) whose content is already correct is not touched, and that a stale one is rewritten.
The mapping -N => Mode::InMemoryBuild in main.rs is checked in C17's CLI harness.
"""
from .fsprops import *

H = 'props.fsprops'


def jobs(tier):
    js = []
    quick = tier == 'quick'
    lens = [None, 0, 1, 2, 3, 4] if quick else [None] + list(range(0, 8))
    scen = [['text'], ['write'], ['include f'], ['run'], ['text', 'text'], ['temp', 'cont prefix'], ['temp'], ['tag A', 'write', 'tagtext'],
            ['include f', 'empty'], ['run', 'empty'], ['empty'], ['text', 'temp'],
            ['tag A']]
    for sc in scen:
        for pl in lens:
            js.append({'name': 'needed vs build pre_out=%s %s' % (pl, '/'.join(sc)), 'harness': (H, 'h_hermetic'),
                       'params': {'nlines': len(sc), 'menu_name': 'small', 'fixed': sc, 'pre_out_len': pl, 'pre_temp_len': None,
                                  'mode_a': 'InMemoryBuild', 'mode_b': 'Build', 'clean_b': False, 'norewrite': True, 'pre_domain': ANYBYTE}})
    for sc in [['temp', 'cont prefix'], ['temp'], ['temp', 'cont prefix', 'cont prefix'], ['temp', 'cont bare']]:
        for mode in ('Build', 'InMemoryBuild', 'Verify'):
            for pl in ([None, 0, 1, 2, 3] if quick else [None, 0, 1, 2, 3, 4, 5, 6]):
                if mode == 'Verify':
                    continue
                js.append({'name': 'temp no-rewrite %s pre_temp=%s %s' % (mode, pl, '/'.join(sc)), 'harness': (H, 'h_hermetic'),
                           'params': {'nlines': len(sc), 'menu_name': 'small', 'fixed': sc, 'pre_out_len': None, 'pre_temp_len': pl,
                                      'mode_a': mode, 'mode_b': 'Build', 'clean_b': True, 'norewrite': True, 'pre_domain': ANYBYTE}})
    for f in (['text', 'run', 'temp', 'tag A'] if quick else [n for n, _ in menu('small')]):
        for pl in ([3, 4] if quick else [2, 3, 4, 5, 6]):
            js.append({'name': 'needed vs build 2 lines first=%s pre_out=%d' % (f, pl), 'harness': (H, 'h_hermetic'),
                       'params': {'nlines': 2, 'menu_name': 'small', 'fixed': [f], 'pre_out_len': pl, 'pre_temp_len': None,
                                  'mode_a': 'InMemoryBuild', 'mode_b': 'Build', 'clean_b': False, 'norewrite': True}})
    # the only-if-needed mode next to decoy files at near-miss names (a.tmp, a.txt.bak ...): what it writes, it writes to its own paths
    for sc in (['text'], ['temp', 'cont prefix'], ['include f']):
        for pl in (None, 2):
            js.append({'name': 'needed-build touches only its own paths %s pre_out=%s' % ('/'.join(sc), pl), 'harness': ('props.fsprops', 'h_paths'),
                       'params': {'nlines': len(sc), 'menu_name': 'small', 'mode': 'InMemoryBuild', 'fixed': sc, 'pre_out_len': pl}})
    for total in (8192, 16384):
        for tr in (True, False):
            js.append({'name': 'needed-build: fresh output of exactly %d bytes over a longer older one (trailing=%s)' % (total, tr),
                       'harness': ('props.fsprops', 'h_exact_size'), 'params': {'total': total, 'mode': 'InMemoryBuild', 'trailing': tr}, 'max_steps': 8_000_000})
    from . import project
    js += project.jobs('C09', tier)
    return js


BOUNDS = {'quick': '9 source scenarios + 2-line sources; pre-existing output / temp absent or any bytes of length 0-4 (so: up to date, stale, '
                   'missing, strict extension / prefix of the fresh content, invalid UTF-8)',
          'thorough': 'pre-states 0-7 bytes, all 2-line sources'}
from . import project as _project
BOUNDS = {k: v + _project.bounds_note('C09', k) for k, v in BOUNDS.items()}
ASSUMPTIONS = ['D1-D12', '"not rewritten" = no mutating FS call on that path (inode and mtime follow by the OS contract)']
COVERS_REQUIRED = ['both_ok', 'both_fail', 'not_rewritten', 'rewritten', 'temp']


def finding_key(v, detail):
    return None


def replay(native, v):
    d = v['data']
    if 'mode_a' not in d and d.get('mode') and 'faults' in d:
        from . import c10                 # counterexamples of the own-paths monitor (h_paths) are replayed by C10's judge
        return c10.replay(native, v)
    model = d['model']
    ma, mb = MODE_ARGS[d.get('mode_a', 'InMemoryBuild')], MODE_ARGS[d.get('mode_b', 'Build')]
    import os
    a = ppreplay.run_native_history(d, model, [(ma, True)])[0]
    d2 = dict(d)
    if d.get('clean_b'):
        d2['pre_out'] = None
        d2['pre_temp'] = None
    b = ppreplay.run_native_history(d2, model, [(mb, True)])[0]
    pre_out = ppreplay.conc(d['pre_out'], model) if d.get('pre_out') is not None else None
    pre_temp = ppreplay.conc(d['pre_temp'], model) if d.get('pre_temp') is not None else None
    # rewrite detection natively: run again on a tree whose files are read-only-by-inode check: compare inode before/after
    ino = ppreplay.run_native_inodes(d, model, ma)
    detail = {'source': repr(ppreplay.conc(d['source'], model)), 'pre_out': repr(pre_out), 'pre_temp': repr(pre_temp),
              'mode_a': d.get('mode_a'), 'mode_b': d.get('mode_b'),
              'runs': [{'rc': r['rc'], 'output': repr(r['output']), 'temp': repr(r['temp'])} for r in (a, b)], 'rewritten': ino}
    bad = (a['rc'] == 0) != (b['rc'] == 0) or (a['rc'] == 0 and (a['output'] != b['output'] or
                                                               (a['temp'] != b['temp'] and b['temp'] is not None)))
    if a['rc'] == 0:
        if d.get('mode_a') == 'InMemoryBuild' and pre_out is not None and pre_out == a['output'] and ino.get('a.txt'):
            bad = True
        if pre_temp is not None and a['temp'] is not None and pre_temp == a['temp'] and b['temp'] is not None and ino.get('t.tmp'):
            bad = True
    return bad, detail
