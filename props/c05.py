"""C05 Dependency cycles are reported, never hang, and spare the acyclic part.

Same harness: a required file reaches a cycle <=> the run ends with an error (no other failure source enabled); files that
cannot reach a cycle are final exactly once in that run; an acyclic project never fails.
"""
from . import sched
from .fsprops import DEP_SHAPES, replay_deps


def jobs(tier):
    js = sched.jobs_c05(tier)
    # lemma behind the abstraction: a file that includes its own output reports itself as dependency (it must not fail fast,
    # which would abandon the acyclic part of the project)
    for kind in ('include', 'after'):
        for mode in ('Build', 'InMemoryBuild'):
            js.append({'name': 'lemma self-dependency is reported %s %s' % (kind, mode), 'harness': ('props.fsprops', 'h_deps'),
                       'params': {'mode': mode, 'shape': len(DEP_SHAPES) - 1, 'kind': kind, 'stale_output': False}})
    # every dependency edge must be reported, whatever the name shape of the producer and wherever the directive stands in
    # the file (an unreported edge hides a cycle)
    for shape in range(len(DEP_SHAPES) - 1):
        for kind in ('include', 'after'):
            for after in ('include2', 'after2'):
                js.append({'name': 'lemma every edge is reported shape=%d %s then %s' % (shape, kind, after), 'harness': ('props.fsprops', 'h_deps'),
                           'params': {'mode': 'Build', 'shape': shape, 'kind': kind, 'after': after}})
    from . import project
    js += project.jobs('C05', tier)
    return js


BOUNDS = {'quick': 'all labelled digraphs with self loops on <=3 files (chosen lazily), 5-10 input selections, every completion order',
          'thorough': 'all digraphs on 3 files; digraphs on 4 files with out-degree <=1 and two selections; duplicate dependency entries on 3 files with every file requested'}
from . import project as _project
BOUNDS = {k: v + _project.bounds_note('C05', k) for k, v in BOUNDS.items()}
ASSUMPTIONS = ['as C02 / C03']
COVERS_REQUIRED = ['acyclic', 'cyclic']


def replay(native, v):
    if v['data'].get('op') == 'deps':
        return replay_deps(v)
    return sched.replay(native, v)
