#!/bin/bash
# Validation of the tooling itself (not of the properties): repository unit tests inside mirsym, fixtures three-way,
# differential std / FS model check.  Not part of any registered check; run after changing mirsym or the models.
cd "$(dirname "$0")"
export CARGO_NET_OFFLINE=true
python3-vt lib/validate.py | tail -1
python3-vt - <<'PY'
import sys; sys.path.insert(0, '.')
from lib import validate
r = validate.run_fixtures()
r = [x for x in r if not x['dir'].startswith('circular_dep')]
print('%d fixture files: spec==native %d, mirsym==native %d' % (len(r), sum(x['spec_matches_native'] for x in r), sum(x['mirsym_matches_native'] for x in r)))
PY
python3-vt lib/modelcheck.py | tail -3
